"""C17 — rotate applies a rotation matrix to the gradient vector at every time."""
import math
from fractions import Fraction

import numpy as np

from common import F, qtok, ztok, Toks
import gradops_lib as gl
from props import C18 as c18

ID = 'C17'
GEN_SECTIONS = ['GenGradOps', 'FP_gradops17', 'GenAddGrad', 'FP_addgrad']
COQ_TARGETS = ['Props/C17.vo']
EXTRACT_TARGETS = ['Extract/Ex_gradops.vo']
RUNNER = 'gradops'
LEVEL = 'proof'
MANIFEST = {
    'text': "Theorems (Coq, all event lists, all rational c and s, all three axes): with (a0,a1) the two axes that remain "
            "after removing the rotation axis from [x,y,z], the events returned by rotate render, at every time, to "
            "(c*G_a0 - s*G_a1, s*G_a0 + c*G_a1) when no component is below the 1e-6*max_mag threshold; for ALL inputs "
            "(rotate_matrix_up_to_drop) the pair differs from that by at most the budget of the dropped components: "
            "(number dropped)*threshold for trapezoids/extended trapezoids, max(threshold,|first|,|last|) per dropped "
            "arbitrary shape; events on the axis and non-gradient events are returned unchanged and first; rotating by "
            "(c,s) then (c,-s) with c*c+s*s=1 restores the waveforms; the squared norm is preserved. add_gradients is "
            "either a function that is the pointwise sum (hypothesis = property C16) or, for trapezoid/extended-trapezoid "
            "inputs one block can hold, the MODEL of add_gradients of property C16 (no hypothesis left, +1e-9 from its "
            "equal-timing path). The sign/target tables and the 1e-6 factor are re-read from rotate.py on every run; the "
            "extracted model (also with the C16 add_gradients model inside) is run against rotate() on mixed event lists "
            "for all axes and special/random angles with the code's cos/sin as exact doubles, with the system passed "
            "explicitly or through the library default.",
    'note': 'Trusted: Coq kernel; translator patterns for rotate.py; extraction + driver; for raster-sampled (arbitrary) '
            'inputs add_gradients = pointwise sum at raster centres is used as hypothesis (C16_add_raster_path_sum_at_'
            'centres is not threaded through); binary64 arithmetic outside the model; non-modification of the inputs '
            'checked on the implementation only.',
    'technique': 'Rocq/Coq proof over a Gallina model (list induction, piecewise-linear algebra, bridge to the C16 model) + '
                 'extraction-based correspondence + exact-Fraction rendering oracle',
}
BUDGET = {'quick': 80, 'thorough': 1500}
MISMATCH_BUDGET = 0.0
ESCALATE_BUDGET = 200
SEARCH_BUDGET = 150
RULE = ('event lists with 0-2 gradient events per channel (trapezoid, triangle, extended trapezoid, arbitrary) mixed with '
        'RF, ADC, delay and label events in random order; axes x, y, z; angles 0, +-pi/2, pi, tiny, random. Oracle: exact '
        'rendering of inputs and outputs at corner times, +-raster/8, midpoints (raster centres when an arbitrary gradient '
        'is summed with others): matrix, bypass identity, drop allowance, inverse rotation, norm; input snapshots. Model: '
        'classification, scaled pieces, threshold and first elimination compared piece-wise with the returned events; '
        'full rotate with the C16 add_gradients model compared event by event (time-boxed, smallest cases first); '
        'equally shaped trapezoids with equal/different delays; system passed explicitly or via Opts.set_as_default; '
        'events registered with a Sequence (library ids, shape_IDs): no returned new event may carry such an id, and the '
        'returned events stored with add_block and decoded with get_block must show the rotated waveforms. '
        'non-trivial = at least one gradient was rotated')
TRUSTED = ['binary64 arithmetic and np.cos/np.sin are outside the model (cos/sin are fed to the model as exact doubles)',
           'add_gradients is used as "pointwise sum" (property C16), exactly so only at raster centres for arbitrary inputs']
ASSUMPTIONS = ['components whose magnitude is within 1e-6 (relative) of the elimination threshold are oracle-only '
               '(the drop decision is taken in binary64)']

SPECIAL = [0.0, math.pi / 2, -math.pi / 2, math.pi, -math.pi, 1e-9, -1e-7, 3e-6, math.pi / 4, math.pi / 3, 2 * math.pi,
           math.pi / 2 + 1e-8]


def gen_case(rng):
    sysd = c18.gen_sys(rng)
    sysd = dict(sysd, max_grad=c18.MAXG * 1000, max_slew=c18.MAXS * 10000)   # limits are C04's subject
    evs = []
    with_arb = rng.random() < 0.3
    same_timing = rng.random() < 0.3
    same_delay = rng.random() < 0.4
    base = c18.gen_trap(rng, sysd)
    single = rng.random() < 0.12          # one gradient event in total: may start/end away from zero
    only = rng.choice(gl.CHN)
    for ch in gl.CHN:
        n = rng.choice([0, 1, 1, 1, 2])
        if single:
            n = 1 if ch == only else 0
        for _ in range(n):
            k = rng.random()
            if same_timing:
                # equally shaped trapezoids (the "same timing" fast path of add_gradients), equal or different delays
                g = dict(base, amp=c18.rnd_amp(rng))
                if same_delay is False:
                    g['delay'] = rng.randint(0, 9) * sysd['raster']
            elif k < 0.45:
                g = c18.gen_trap(rng, sysd)
            elif k < 0.8 or not with_arb:
                g = c18.gen_ext(rng, sysd, zero_ends=not single)
            else:
                g = c18.gen_arb(rng, sysd, zero_ends=not single)
            g = dict(g, ch=ch)
            evs.append(g)
    for _ in range(rng.choice([0, 1, 2, 3])):
        k = rng.choice(['rf', 'adc', 'delay', 'label'])
        if k == 'rf':
            evs.append({'kind': 'rf', 'flip': 0.4, 'dur': 1e-3, 'delay': 1e-4})
        elif k == 'adc':
            evs.append({'kind': 'adc', 'num': 64, 'dwell': 1e-5, 'delay': 2e-5})
        elif k == 'delay':
            evs.append({'kind': 'delay', 'delay': 3e-3})
        else:
            evs.append({'kind': 'label', 'label': rng.choice(['LIN', 'SLC']), 'value': rng.randint(0, 5)})
    rng.shuffle(evs)
    angle = rng.choice(SPECIAL) if rng.random() < 0.45 else rng.uniform(-7, 7)
    if rng.random() < 0.1:
        # a component just around the elimination threshold
        angle = rng.choice([1e-6, 0.99e-6, 1.01e-6, math.pi / 2 - 1e-6, -1e-6])
    case = {'sys': sysd, 'events': evs, 'angle': angle, 'axis': rng.choice(gl.CHN)}
    if rng.random() < 0.15:
        case['default_sys'] = True      # rotate() called without a system after Opts.set_as_default()
    return case


def gen_registered_case(rng):
    """events that can be put into one block (zero-ended gradients, at most one gradient on the rotation axis, one RF,
    one ADC), to be registered with a Sequence before the rotation and added to it afterwards"""
    sysd = c18.gen_sys(rng)
    sysd = dict(sysd, max_grad=c18.MAXG * 1000, max_slew=c18.MAXS * 10000)
    axis = rng.choice(gl.CHN)
    evs = []
    for ch in gl.CHN:
        n = rng.choice([0, 1]) if ch == axis else rng.choice([0, 1, 1, 1, 2])
        for _ in range(n):
            evs.append(c18.gen_zero_ended(rng, sysd, ch))
    if rng.random() < 0.4:
        evs.append({'kind': 'rf', 'flip': 0.4, 'dur': 1e-3, 'delay': 1e-4})
    if rng.random() < 0.4:
        evs.append({'kind': 'adc', 'num': 64, 'dwell': 1e-5, 'delay': 2e-5})
    if rng.random() < 0.3:
        evs.append({'kind': 'delay', 'delay': 3e-3})
    rng.shuffle(evs)
    angle = rng.choice(SPECIAL) if rng.random() < 0.3 else rng.uniform(-7, 7)
    return {'sys': sysd, 'events': evs, 'angle': angle, 'axis': axis, 'registered': True}


def build(d, system):
    import pypulseq as pp
    if d['kind'] == 'label':
        return pp.make_label(type='SET', label=d['label'], value=d['value'])
    return c18.build_event(d, system)


def is_grad(e):
    return getattr(e, 'type', None) in ('grad', 'trap')


def gmag(g):
    if g.type == 'trap':
        return abs(F(g.amplitude))
    return max(abs(F(v)) for v in g.waveform)


def dict_corners(m, raster):
    """corner list of a decoded model event (gl.dec_grad) via the oracle's rendering"""
    from types import SimpleNamespace
    if m['type'] == 'trap':
        o = SimpleNamespace(type='trap', amplitude=m['amplitude'], rise_time=m['rise_time'], flat_time=m['flat_time'],
                            fall_time=m['fall_time'], delay=m['delay'])
    else:
        o = SimpleNamespace(type='grad', tt=m['tt'], waveform=m['waveform'], delay=m['delay'], first=m['first'],
                            last=m['last'])
    return gl.corners(o, raster)


def centres(spans, raster, limit=400):
    r = F(raster)
    lo = min(s[0] for s in spans)
    hi = max(s[1] for s in spans)
    k0 = int(lo / r) - 1
    k1 = int(hi / r) + 1
    ks = list(range(k0, k1 + 1))
    if len(ks) > limit:
        step = len(ks) // limit + 1
        ks = ks[::step]
    return [(k + Fraction(1, 2)) * r for k in ks]


def render_sum(cl, t):
    return sum((gl.pw_eval(p, t) for p in cl), Fraction(0))


def analyse(case, evs, out, c, s, raster):
    """oracle on one rotate() call; returns (failure or None, info)"""
    ax = case['axis']
    rest = [a for a in gl.CHN if a != ax]
    a0, a1 = rest
    bypass_in = [e for e in evs if not is_grad(e) or e.channel == ax or e.channel not in gl.CHN]
    nb = len(bypass_in)
    if len(out) < nb or any(o is not b for o, b in zip(out[:nb], bypass_in)):
        return ('C17/bypass', {'n_bypass': nb, 'returned': len(out)}), None
    new = out[nb:]
    if any(not is_grad(o) for o in new):
        return ('C17/extra-non-gradient', {}), None
    chans = [o.channel for o in new]
    if len(set(chans)) != len(chans) or any(chn not in rest for chn in chans):
        return ('C17/output-channels', {'channels': chans}), None
    if chans == [a1, a0]:
        return ('C17/output-order', {'channels': chans}), None
    G = {ch: [e for e in evs if is_grad(e) and e.channel == ch] for ch in rest}
    allg = G[a0] + G[a1]
    cq, sq = F(c), F(s)
    max_mag = max([gmag(g) for g in allg] + [Fraction(0)])
    thr = Fraction(1, 10 ** 6) * max_mag
    # pieces per output channel: (factor, input event)
    pieces = {a0: [(cq, g) for g in G[a0]] + [(-sq, g) for g in G[a1]],
              a1: [(sq, g) for g in G[a0]] + [(cq, g) for g in G[a1]]}
    sn = c18.snap_times([gl.corners(g, raster) for g in allg] + [gl.corners(o, raster) for o in new])
    incl = {id(g): p for g, p in zip(allg, sn[:len(allg)])}
    outc = {o.channel: p for o, p in zip(new, sn[len(allg):])}
    scale = max(max_mag, Fraction(1))
    tol = scale * Fraction(1, 10 ** 9) + Fraction(1, 10 ** 6)
    guard = thr * (1 + Fraction(1, 10 ** 6))
    arb_mix = {}
    for ch in rest:
        kept = [(k, g) for k, g in pieces[ch] if abs(k) * gmag(g) >= thr]
        arb_mix[ch] = len(kept) > 1 and any(g.type == 'grad' and gl.is_arbitrary(g.tt, raster) for _, g in kept)
    spans = [(p[0][0], p[-1][0]) for p in list(incl.values()) + list(outc.values()) if p]
    info = {'thr': thr, 'max_mag': max_mag, 'arb_mix': arb_mix, 'near_threshold': False, 'outc': outc, 'rest': rest,
            'nb': nb, 'scale': scale}
    for ch in rest:
        for k, g in pieces[ch]:
            m = abs(k) * gmag(g)
            if thr > 0 and abs(m - thr) <= thr * Fraction(1, 10 ** 5):
                info['near_threshold'] = True
    if not spans:
        return None, info
    times_all = gl.sample_times(list(incl.values()) + list(outc.values()), raster)
    times_c = centres(spans, raster)
    vals = {}
    for ch in rest:
        ts = times_c if arb_mix[ch] else times_all
        for t in ts:
            full = sum((k * gl.pw_eval(incl[id(g)], t) for k, g in pieces[ch]), Fraction(0))
            drop = sum((abs(k * gl.pw_eval(incl[id(g)], t)) for k, g in pieces[ch] if abs(k) * gmag(g) < guard), Fraction(0))
            if ch in outc:
                o = gl.pw_eval(outc[ch], t)
                if abs(o - full) > drop + tol:
                    return ('C17/matrix-' + ('first' if ch == a0 else 'second'),
                            {'t': float(t), 'channel': ch, 'returned': float(o), 'expected': float(full),
                             'allowance': float(drop + tol)}), info
            else:
                o = Fraction(0)
                if abs(full) > drop + guard + tol:
                    return ('C17/component-dropped', {'t': float(t), 'channel': ch, 'expected': float(full),
                                                      'threshold': float(thr)}), info
            vals[(ch, t)] = (o, full, drop)
    info['vals'] = vals
    return None, info


def run_rotate(ctx, cases):
    import pypulseq as pp
    lines, keep = [], []
    for case in cases:
        system = gl.make_system(case['sys'])
        raster = case['sys']['raster']
        evs = [build(d, system) for d in case['events']]
        seq = None
        if case.get('registered'):
            # the events are registered with a Sequence first: they carry library ids (and shape_IDs)
            seq = pp.Sequence(system)
            gl.register_events(seq, evs)
            ctx.count('rotate.registered_events')
        before = [gl.snap(e) for e in evs]
        ang = case['angle']
        c, s = float(np.cos(ang)), float(np.sin(ang))
        try:
            out = gl.call_with_default(system, case.get('default_sys'), pp.rotate, *evs, angle=ang, axis=case['axis'])
            err = None
        except Exception as e:
            out, err = None, e
        ngr = sum(1 for e in evs if is_grad(e) and e.channel != case['axis'])
        ctx.evaluated(('rot', str(case)), nontrivial=err is None and ngr > 0)
        ctx.count('rotate.axis.' + case['axis'])
        ctx.count('rotate.ngrad.%d' % ngr)
        ctx.count('rotate.angle.' + ('special' if ang in SPECIAL else 'random'))
        if case.get('default_sys'):
            ctx.count('rotate.system_from_library_default')
        if err is not None:
            ctx.fail('C17/raises', case, {'exception': repr(err)})
            continue
        bad = None
        for e, b in zip(evs, before):
            d = gl.same_obj(b, e) if hasattr(e, '__dict__') else None
            if d is not None:
                bad = d
                break
        if bad:
            ctx.fail('C17/modifies-input', case, bad)
            continue
        fail, info = analyse(case, evs, out, c, s, raster)
        if fail:
            ctx.fail(fail[0], case, fail[1])
            continue
        rest = info['rest']
        if seq is not None:
            # the returned events are new events: one that still carries the id of an input makes add_block store the
            # UNROTATED library entry; the stored block must decode to what rotate returned
            st = gl.stale_id(evs, out)
            if st is not None:
                ctx.fail('C17/output-keeps-library-id', case, {'output_index': st[0], 'id': repr(st[1]),
                                                               'kind': getattr(out[st[0]], 'type', '?')})
                continue
            if out:
                try:
                    seq.add_block(*out)
                except Exception as e:
                    ctx.fail('C17/stored-add-block-raises', case, {'exception': repr(e)})
                    continue
                d = gl.stored_differs(seq, 1, out, raster, info['scale'])
                if d is not None:
                    ctx.fail('C17/stored-block', case, d)
                    continue
        # norm preservation on the rendered waveforms (where both channels are compared at the same times)
        vals = info.get('vals', {})
        sc = info['scale']
        for (ch, t), (o, full, drop) in vals.items():
            if ch != rest[0] or (rest[1], t) not in vals:
                continue
            o1, full1, drop1 = vals[(rest[1], t)]
            g0 = sum((gl.pw_eval(gl.corners(e, raster), t) for e in evs if is_grad(e) and e.channel == rest[0]), Fraction(0))
            g1 = sum((gl.pw_eval(gl.corners(e, raster), t) for e in evs if is_grad(e) and e.channel == rest[1]), Fraction(0))
            allow = (drop + drop1 + 2 * info['thr'] * (1 + Fraction(1, 10 ** 6))) * 4 * sc + sc * sc * Fraction(1, 10 ** 9)
            if abs((o * o + o1 * o1) - (g0 * g0 + g1 * g1)) > allow:
                ctx.fail('C17/norm', case, {'t': float(t), 'out': float(o * o + o1 * o1), 'in': float(g0 * g0 + g1 * g1)})
                break
        else:
            # inverse rotation restores the waveforms
            nb = info['nb']
            try:
                back = gl.call_with_default(system, case.get('default_sys'), pp.rotate, *out, angle=-ang, axis=case['axis'])
            except Exception as e:
                ctx.fail('C17/inverse-raises', case, {'exception': repr(e)})
                continue
            bgr = [o for o in back if is_grad(o) and o.channel in rest]
            ok = True
            if not any(info['arb_mix'].values()):
                for ch in rest:
                    orig = [gl.corners(e, raster) for e in evs if is_grad(e) and e.channel == ch]
                    rec = [gl.corners(o, raster) for o in bgr if o.channel == ch]
                    sn = c18.snap_times(orig + rec)
                    orig, rec = sn[:len(orig)], sn[len(orig):]
                    for t in gl.sample_times(orig + rec, raster):
                        a, b = render_sum(orig, t), render_sum(rec, t)
                        if abs(a - b) > 8 * info['thr'] * (1 + Fraction(1, 10 ** 6)) + sc * Fraction(1, 10 ** 8):
                            ctx.fail('C17/inverse', case, {'t': float(t), 'channel': ch, 'original': float(a),
                                                           'restored': float(b)})
                            ok = False
                            break
                    if not ok:
                        break
            if not ok:
                continue
            toks = []
            for j, e in enumerate(evs):
                toks.append('G ' + gl.enc_grad(e) if is_grad(e) else 'O ' + ztok(j))
            args = '%s %s %d %d %s' % (qtok(F(c)), qtok(F(s)), gl.CH[case['axis']], len(evs), ' '.join(toks))
            lines.append('go.rotpre ' + args)
            lines.append('go.rotate1 ' + args)
            keep.append((case, evs, out, info, 'go.rotatec16 ' + gl.enc_sys(system) + ' ' + args))
    if keep and ctx.model_available:
        outs = ctx.model(lines)
        c16_jobs = []
        for j, (case, evs, out, info, c16_line) in enumerate(keep):
            raster = case['sys']['raster']
            t = Toks(outs[2 * j])
            if t.next() != 'OK':
                ctx.mismatch('rotpre', case, {'model': outs[2 * j][:100]})
                continue
            thr = t.q()
            if not gl.close(thr, info['thr'], info['scale'] * Fraction(1, 1000)):
                ctx.mismatch('rotpre', case, {'thr_model': float(thr), 'thr_oracle': float(info['thr'])})
                continue
            nbm = t.int()
            byp = []
            for _ in range(nbm):
                tag = t.next()
                byp.append(('O', t.z()) if tag == 'O' else ('G', gl.dec_grad(t)))
            exp_b = [('O', jj) if not is_grad(e) else ('G', None) for jj, e in enumerate(evs)
                     if not is_grad(e) or e.channel == case['axis'] or e.channel not in gl.CHN]
            if len(byp) != len(exp_b) or any(a[0] != b[0] or (a[0] == 'O' and a[1] != b[1]) for a, b in zip(byp, exp_b)):
                ctx.mismatch('rotpre', case, {'bypass_model': str(byp)[:200], 'bypass_impl': str(exp_b)[:200]})
                continue
            r1 = [gl.dec_grad(t) for _ in range(t.int())]
            r2 = [gl.dec_grad(t) for _ in range(t.int())]
            if info['near_threshold']:
                ctx.count('corr.near_threshold_oracle_only')
                continue
            bad = None
            for ch, pcs in zip(info['rest'], (r1, r2)):
                if any(m['ch'] != gl.CH[ch] for m in pcs):
                    bad = {'channel': ch, 'what': 'model piece on another channel'}
                    break
                oc = info['outc'].get(ch)
                pc = c18.snap_times(([oc] if oc else []) + [dict_corners(m, raster) for m in pcs])[(1 if oc else 0):]
                if oc is None:
                    # second elimination: the sum of the kept pieces must be small
                    ts = gl.sample_times(pc, raster) if pc else []
                    if any(abs(render_sum(pc, x)) > thr * (1 + Fraction(1, 10 ** 6)) + Fraction(1, 10 ** 6) for x in ts):
                        bad = {'channel': ch, 'what': 'implementation returned no event, model pieces are not small'}
                        break
                    continue
                if not pc:
                    bad = {'channel': ch, 'what': 'implementation returned an event, model has no piece'}
                    break
                ts = centres([(p[0][0], p[-1][0]) for p in pc + [oc]], raster) if info['arb_mix'][ch] else \
                    gl.sample_times(pc + [oc], raster)
                for x in ts:
                    a, b = render_sum(pc, x), gl.pw_eval(oc, x)
                    if abs(a - b) > info['scale'] * Fraction(1, 10 ** 9) + Fraction(1, 10 ** 6):
                        bad = {'channel': ch, 't': float(x), 'model_sum': float(a), 'impl': float(b)}
                        break
                if bad:
                    break
            if bad:
                ctx.mismatch('rotpre', case, bad)
                continue
            # full rotate with add = "copy of the single gradient": event-by-event comparison
            if compare_events(ctx, 'rotate1', case, outs[2 * j + 1], out, info['scale']):
                ctx.count('corr.rotate1.full')
                continue
            ctx.count('corr.rotate1.needs_add')
            # full rotate with add_gradients = the model of property C16 (Model/AddGrad.v through Model/GradBridge.v);
            # raster-sampled (arbitrary) inputs are left to the rendering comparison above
            rot_in = [e for e in evs if is_grad(e) and e.channel in info['rest']]
            if any(e.type == 'grad' and gl.is_arbitrary(e.tt, raster) for e in rot_in):
                ctx.count('corr.rotatec16.skipped_arbitrary')
            else:
                size = sum(4 if e.type == 'trap' else len(e.tt) for e in rot_in)
                c16_jobs.append((size, len(c16_jobs), case, c16_line, out, info['scale']))
        run_c16_jobs(ctx, c16_jobs)


C16_BUDGET = {'quick': 10.0, 'thorough': 600.0}


def run_c16_jobs(ctx, jobs):
    """The extracted model of add_gradients works on exact binary fractions with unreduced denominators and is slow
    (0.01-20 s per case): the jobs are run smallest first, one process each, within a time budget per check run."""
    import subprocess
    import time
    import common
    spent = getattr(ctx, '_c16_spent', 0.0)
    start = spent
    total = C16_BUDGET[ctx.tier]
    if ctx.budget_s:
        total = min(total, 0.2 * ctx.budget_s)      # never more than a fifth of the run's time budget
    for size, _, case, line, out, scale in sorted(jobs, key=lambda j: j[:2]):
        if spent > total or spent - start > total / 8:
            ctx.count('corr.rotatec16.not_run_time_budget')
            continue
        t0 = time.time()
        try:
            o = common.run_model([line], timeout=6, runner=ctx.runner)[0]
        except subprocess.TimeoutExpired:
            ctx.count('corr.rotatec16.model_timeout')
            spent += time.time() - t0
            continue
        spent += time.time() - t0
        ctx.model_cases += 1
        if compare_events(ctx, 'rotatec16', case, o, out, scale, must=True):
            ctx.count('corr.rotatec16.full')
    ctx._c16_spent = spent


def compare_events(ctx, stream, case, line, out, scale, must=False):
    """model output event list vs the implementation's, event by event; False when the model has no result"""
    t2 = Toks(line)
    tag = t2.next()
    if tag != 'OK':
        if must:
            ctx.mismatch(stream, case, {'model': line[:80], 'impl_events': len(out)})
        return False
    n = t2.int()
    mo = []
    for _ in range(n):
        tg = t2.next()
        mo.append(('O', t2.z()) if tg == 'O' else ('G', gl.dec_grad(t2)))
    if len(mo) != len(out):
        ctx.mismatch(stream, case, {'model_events': len(mo), 'impl_events': len(out)})
        return True
    for (tg, m), o in zip(mo, out):
        if tg == 'G':
            if not is_grad(o):
                ctx.mismatch(stream, case, {'what': 'gradient expected'})
                break
            d = gl.diff_fields(m, gl.grad_fields(o), scale, 1)
            if d:
                ctx.mismatch(stream, case, d)
                break
        elif is_grad(o):
            ctx.mismatch(stream, case, {'what': 'non-gradient expected'})
            break
    return True


def corpus():
    s = {'raster': 1e-5, 'max_grad': 2e9, 'max_slew': 2e14}
    tx = {'kind': 'trap', 'ch': 'x', 'amp': 100000.0, 'rise': 1e-4, 'flat': 5e-4, 'fall': 1e-4, 'delay': 0.0}
    ty = dict(tx, ch='y', amp=-40000.0, flat=3e-4, delay=1e-4)
    tz = dict(tx, ch='z', amp=25000.0)
    cs = []
    for ax in gl.CHN:
        for ang in (math.pi / 2, 0.3, -math.pi, 0.0):
            cs.append({'sys': s, 'events': [tx, {'kind': 'delay', 'delay': 2e-3}, ty, tz], 'angle': ang, 'axis': ax})
    cs.append({'sys': s, 'events': [tx, dict(tx, amp=3e4)], 'angle': 0.7, 'axis': 'z'})
    cs.append({'sys': s, 'events': [], 'angle': 0.7, 'axis': 'z'})
    cs.append({'sys': s, 'events': [{'kind': 'adc', 'num': 64, 'dwell': 1e-5, 'delay': 2e-5}], 'angle': 0.7, 'axis': 'x'})
    return cs


def run(ctx):
    n = {'quick': 1000, 'thorough': 30000}[ctx.tier]
    rng = ctx.rng('rotate')
    rr = ctx.rng('registered')
    # registered-event cases are spread evenly among the general ones, so that a time-boxed run (escalation after a
    # source change) reaches every kind of case
    cases = corpus()
    for i in range(n):
        if i % 6 == 0:
            cases.append(gen_registered_case(rr))
        cases.append(gen_case(rng))
    for i, c in enumerate(cases):
        if i % 211 == 20:
            ctx.sample(c)
    for j in range(0, len(cases), 150):
        if ctx.out_of_time():
            ctx.notes.append('time budget reached after %d cases' % j)
            break
        run_rotate(ctx, cases[j:j + 150])


def replay(ctx, case):
    n0 = len(ctx.failures)
    run_rotate(ctx, [case])
    return {'oracle_failures': [f['signature'] for f in ctx.failures[n0:]], 'mismatches': ctx.mismatches[-3:]}
