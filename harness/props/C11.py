"""C11 — make_trapezoid realises the requested area, amplitude and timing."""
import json
import math
import warnings
from fractions import Fraction

from common import F, qtok, Toks

ID = 'C11'
GEN_SECTIONS = ['GenTrap', 'FP_trap']
COQ_TARGETS = ['Props/C11.vo']
EXTRACT_TARGETS = ['Extract/Ex_trap.vo']
RUNNER = 'trap'
LEVEL = 'proof'
MANIFEST = {
    'text': "Theorems (Coq, over Q, for ALL argument combinations and ALL systems with positive limits): whenever the "
            "model of make_trapezoid returns an event, amplitude*(rise/2+flat+fall/2) equals the requested area, "
            "amplitude*flat the requested flat area, the amplitude is the requested one, requested duration / flat "
            "time / ramps are returned, the area and flat_area fields equal the waveform integrals, ramps chosen by the "
            "function are positive integer multiples of the gradient raster, flat_time >= 0, amplitude and both ramp "
            "slopes respect the effective limits (overrides else system) up to the code's eps slack, and an area-only "
            "request is at most two rasters longer than ANY continuous-time trapezoid within the limits (AM-GM "
            "argument without square roots); ramps chosen on the other argument sets are the shortest raster "
            "multiples respecting max_slew (exactly, no slack); the rendered piecewise-linear waveform has the area "
            "field as its integral and respects the amplitude and slope limits AT EVERY TIME; and two bracketing "
            "theorems say exactly when binary64 rounding in front of math.ceil can change a raster count (by one, "
            "only inside an explicit band next to an integer / perfect square) - the harness admits a one-raster "
            "divergence of model and code only inside those bands.  Every transcribed expression and the tolerance eps are re-read from the "
            "source on each run (fail-closed); the extracted model is run against make_trapezoid on ~6400 (quick) / "
            "~320000 (thorough) calls over the seven argument sets, an invalid-argument stream (error class compared) "
            "and an exact-threshold corpus; the property predicate is evaluated with exact Fractions on every "
            "returned event.",
    'note': 'Trusted: Coq kernel; translator patterns for make_trapezoid.py; extraction (ExtrOcamlBasic) + driver; '
            'binary64 arithmetic (math.sqrt, math.ceil of float quotients) is outside the model: sampled by the '
            'correspondence, a one-raster ceil flip is accepted only when the oracle still holds; decisions exactly on a '
            'float threshold are oracle-only.',
    'technique': 'Rocq/Coq proof over a Gallina model of the whole argument lattice + extraction-based correspondence',
}
BUDGET = {'quick': 70, 'thorough': 1500}
ESCALATE_BUDGET = 150     # source of make_trapezoid edited: thorough-size correspondence, time-boxed
SEARCH_BUDGET = 120
MISMATCH_BUDGET = 0.0
BENIGN_BUDGET = 0.002
RULE = ('calls drawn from the seven supported argument sets (area; area+duration; area+duration+rise[/fall]; '
        'area+flat_time+rise[/fall]; amplitude+duration; amplitude+flat_time; flat_area+flat_time) x ramps '
        '(none/rise/fall/symmetric/asymmetric, on and off raster) x sign x zero x random systems (max_grad in '
        'mT/m, Hz/m, rad/ms/mm; max_slew in T/m/s, mT/m/ms, Hz/m/s, rad/ms/mm/ms; raster 4/5/10/20 us) x optional '
        'delay and max_grad/max_slew overrides, systems built with the non-default Opts options (rise_time instead of / in '
        'addition to max_slew, on and off the raster; other gamma incl. negative; other rf/adc/block rasters), area regimes triangle / near the regime boundary / plateau; an invalid '
        'stream (missing or conflicting arguments, too short durations, beyond amplitude or slew limits, zero or '
        'negative rise / fall / flat times and durations on every path, bad channel) where the exception class '
        'must equal the model\'s; a threshold stream '
        '(exactly minimal duration, exactly at a limit) that is oracle-only; a band stream whose math.ceil arguments '
        'are (nearly) integers / perfect squares, where a one-raster divergence of model and code is admitted '
        'exactly inside the bands of theorems ceil_robust_band / ceil_sqrt_div_robust_band; sibling calls (same '
        'request under a system differing in the raster only / the limits only / not at all, to expose state '
        'carried between calls); and a fixed corpus incl. thresholds whose '
        'float arithmetic is exact.  distinct = distinct calls; non-trivial = the call returned an event or raised '
        'one of the modelled exception classes other than the argument-presence ones')
TRUSTED = ['binary64 arithmetic of make_trapezoid (sqrt, quotients before math.ceil, sums) is outside the model: sampled',
           'pypulseq.opts.Opts / convert (unit conversion of the limits) is used as is; the model receives the '
           'converted limits of the Opts object']
ASSUMPTIONS = ['the model decides comparisons on exact rationals; generated values keep a guard band of one raster or '
               '>= 2 % from every decision threshold, threshold cases are checked by the oracle only',
               'area-only calls with rise_time/fall_time given: the code documents (warning) that they are ignored; '
               'the oracle does not demand them back',
               'a ramp time given as 0 is falsy in `rise_time or fall_time` and counts as not given']

GAMMA = 42576000.0
ARGS = ['amplitude', 'area', 'delay', 'duration', 'fall_time', 'flat_area', 'flat_time', 'max_grad', 'max_slew',
        'rise_time']
PRESENCE_CLASSES = {'channel', 'ni_flat_area_amp', 'ni_amp_area', 'must_supply', 'flat_time_needs',
                    'ni_flat_area_dur', 'area_or_duration', 'unbound'}


# ------------------------------------------------------------------------------------------------
# helpers
def sig(x, n=6):
    """x rounded to n significant decimal digits (a short decimal; the nearest double is handed to the code)"""
    if x == 0:
        return 0.0
    e = math.floor(math.log10(abs(x)))
    return float('%.*e' % (n - 1, x))


def tm(x):
    """a time as a short decimal (ns resolution)"""
    return round(float(x), 9)


def close(a, b, scale=None, rel=Fraction(1, 10 ** 9), ab=Fraction(1, 10 ** 12)):
    if scale is None:
        scale = max(abs(a), abs(b))
    return abs(a - b) <= rel * abs(scale) + ab


def gen_system(rng):
    g_mT = rng.choice([20, 30, 40, 45, 80, round(rng.uniform(15, 90), 1)])
    s_T = rng.choice([50, 100, 130, 170, 200, 250, round(rng.uniform(40, 260), 1)])
    gu = rng.choice(['mT/m', 'Hz/m', 'rad/ms/mm'])
    su = rng.choice(['T/m/s', 'mT/m/ms', 'Hz/m/s', 'rad/ms/mm/ms'])
    mg = {'mT/m': g_mT, 'Hz/m': float(round(g_mT * 1e-3 * GAMMA)),
          'rad/ms/mm': round(g_mT * 1e-3 * GAMMA * 2 * math.pi / 1e6, 4)}[gu]
    ms = {'T/m/s': s_T, 'mT/m/ms': s_T, 'Hz/m/s': float(round(s_T * GAMMA)),
          'rad/ms/mm/ms': round(s_T * GAMMA * 2 * math.pi / 1e9, 4)}[su]
    raster = rng.choice([4e-6, 5e-6, 10e-6, 20e-6, 10e-6])
    sysd = {'max_grad': mg, 'grad_unit': gu, 'max_slew': ms, 'slew_unit': su, 'raster': raster}
    # non-default Opts options: slew given as the time to reach max_grad (rise_time, on and off the raster),
    # another nucleus / sign of gamma (changes every unit conversion), other rasters of the Opts object
    u = rng.random()
    if u < 0.25:
        t_rise = g_mT / s_T * 1e-3                      # s: mT/m over T/m/s
        sysd['rise_time'] = rng.choice([tm(round(t_rise / raster) * raster) or raster,
                                        round(t_rise, 7), 125e-6, 1.234e-4, round(t_rise * 1.013, 8)])
        if rng.random() < 0.5:
            sysd['max_slew'] = None                     # rise_time alone defines the slew limit
    if rng.random() < 0.2:
        sysd['gamma'] = rng.choice([10.7084e6, 40.078e6, 17.235e6, -42.576e6, 42.576e6 * 1.0001])
    if rng.random() < 0.15:
        sysd['other'] = {'rf_raster_time': rng.choice([1e-6, 2e-6, 5e-7]),
                         'block_duration_raster': rng.choice([10e-6, 20e-6, 4e-6]),
                         'adc_raster_time': rng.choice([1e-7, 2e-7])}
    return sysd


_OPTS_CACHE = {}


def make_opts(s):
    import pypulseq as pp
    other = s.get('other') or {}
    key = (s['max_grad'], s['grad_unit'], s['max_slew'], s['slew_unit'], s['raster'], s.get('rise_time'), s.get('gamma'),
           tuple(sorted(other.items())))
    o = _OPTS_CACHE.get(key)
    if o is None:
        kw = dict(max_grad=s['max_grad'], grad_unit=s['grad_unit'], grad_raster_time=s['raster'])
        if s['max_slew'] is not None:
            kw.update(max_slew=s['max_slew'], slew_unit=s['slew_unit'])
        if s.get('rise_time') is not None:
            kw['rise_time'] = s['rise_time']
        if s.get('gamma') is not None:
            kw['gamma'] = s['gamma']
        kw.update(other)
        o = pp.Opts(**kw)
        if len(_OPTS_CACHE) > 5000:
            _OPTS_CACHE.clear()
        _OPTS_CACHE[key] = o
    return o


def new_args():
    return {k: None for k in ARGS}


def eff_limits(case):
    o = make_opts(case['sys'])
    a = case['args']
    G = a['max_grad'] if a['max_grad'] is not None else o.max_grad
    S = a['max_slew'] if a['max_slew'] is not None else o.max_slew
    return float(G), float(S), float(o.grad_raster_time)


def gen_ramps(rng, R, mode=None):
    """(rise, fall, mode): requested ramp times (None = not given)"""
    mode = mode or rng.choice(['none', 'none', 'rise', 'fall', 'sym', 'asym', 'asym'])
    if mode == 'none':
        return None, None, mode

    def one():
        if rng.random() < 0.75:
            return tm(rng.randint(1, 40) * R)
        return tm(rng.uniform(1, 40) * R)
    r, f = one(), one()
    if mode == 'rise':
        return r, None, mode
    if mode == 'fall':
        return None, f, mode
    if mode == 'sym':
        return r, r, mode
    if f == r:
        f = tm(r + R)
    return r, f, mode


def eff_ramps(rise, fall):
    """the `rise or fall`, `fall or rise` defaults of the code (only used to construct feasible requests)"""
    r = rise or fall
    f = fall or r
    return r, f


def cont_optimum(a, S, G):
    """float: duration of the shortest continuous-time trapezoid of area a within |g|<=G, |dg/dt|<=S"""
    a = abs(a)
    if a * S <= G * G:
        return 2 * math.sqrt(a / S)
    return a / G + G / S


def gen_area_value(rng, G, S, sign=True):
    a0 = G * G / S
    reg = rng.choice(['tri', 'tri', 'plateau', 'plateau', 'mid', 'tiny', 'zero'])
    if reg == 'tri':
        a = a0 * rng.uniform(0.001, 0.9)
    elif reg == 'plateau':
        a = a0 * rng.uniform(1.1, 30)
    elif reg == 'mid':
        a = a0 * rng.uniform(0.9, 1.1)
    elif reg == 'tiny':
        a = a0 * rng.uniform(1e-7, 1e-3)
    else:
        a = 0.0
    a = sig(a, rng.choice([3, 6, 9]))
    if sign and rng.random() < 0.5:
        a = -a
    return a, reg


def decorate(rng, case, G0, S0, R, need_amp=None, need_slew=None):
    """optional delay and limit overrides that keep the request feasible:
    need_amp / need_slew = magnitudes the effective limits must still admit (None: free)"""
    a = case['args']
    if rng.random() < 0.35:
        a['delay'] = rng.choice([0.0, tm(rng.randint(0, 300) * R), tm(rng.uniform(0, 3e-3))])
    return case


def pick_overrides(rng, G0, S0):
    """(max_grad override or None, max_slew override or None) and the effective limits"""
    og = osl = None
    if rng.random() < 0.3:
        og = sig(G0 * rng.choice([0.3, 0.5, 0.8, 1.25, 2.0, rng.uniform(0.3, 2.0)]), 6)
    if rng.random() < 0.3:
        osl = sig(S0 * rng.choice([0.3, 0.5, 0.8, 1.25, 2.0, rng.uniform(0.3, 2.0)]), 6)
    return og, osl, (og if og is not None else G0), (osl if osl is not None else S0)


# ------------------------------------------------------------------------------------------------
# valid stream
VALID_KINDS = ['area', 'area', 'area_dur', 'area_dur_rise', 'area_dur_rise', 'area_flat_rise', 'area_flat_rise',
               'amp_dur', 'amp_dur', 'amp_flat', 'flatarea_flat']


def gen_valid(rng, kind=None):
    s = gen_system(rng)
    o = make_opts(s)
    G0, S0, R = float(o.max_grad), float(o.max_slew), float(o.grad_raster_time)
    og, osl, G, S = pick_overrides(rng, G0, S0)
    kind = kind or rng.choice(VALID_KINDS)
    a = new_args()
    a['max_grad'], a['max_slew'] = og, osl
    case = {'kind': kind, 'sys': s, 'args': a, 'channel': rng.choice(['x', 'y', 'z']), 'threshold': False}
    sgn = rng.choice([1, -1])
    if kind == 'area':
        a['area'], reg = gen_area_value(rng, G, S)
        case['regime'] = reg
        if rng.random() < 0.1:
            a['rise_time'], a['fall_time'], case['ramps'] = gen_ramps(rng, R)
    elif kind == 'area_dur':
        a['area'], reg = gen_area_value(rng, G, S)
        case['regime'] = reg
        d_opt = cont_optimum(a['area'], S, G)
        n = math.ceil(d_opt / R + 2 + 1e-6) + rng.choice([1, 1, 2, 3, 10, 100, rng.randint(1, 2000)])
        a['duration'] = tm(n * R) if rng.random() < 0.8 else tm((n + rng.random()) * R)
    elif kind in ('area_dur_rise', 'area_flat_rise', 'amp_dur', 'amp_flat', 'flatarea_flat'):
        modes = ['rise', 'fall', 'sym', 'asym', 'asym', 'rise']
        if kind in ('amp_dur', 'amp_flat', 'flatarea_flat'):
            modes += ['none', 'none', 'none']
        rise, fall, mode = gen_ramps(rng, R, rng.choice(modes))
        case['ramps'] = mode
        a['rise_time'], a['fall_time'] = rise, fall
        r, f = eff_ramps(rise, fall)
        nflat = rng.choice([0, 1, 1, 2, 5, rng.randint(0, 400), rng.randint(0, 4000)])
        flat = tm(nflat * R) if rng.random() < 0.8 else tm((nflat + rng.random()) * R)
        if r is not None:
            hmax = min(G, S * min(r, f))
        else:
            hmax = G
        u = rng.choice([0.0, 1e-4]) if rng.random() < 0.06 else rng.uniform(0.02, 0.97)
        h = hmax * u
        if kind == 'area_dur_rise':
            if flat < R:
                flat = tm(R)           # exactly triangular requests sit on a float threshold: threshold stream
            a['duration'] = tm(r + f + flat)
            a['area'] = sgn * sig(h * (r / 2 + flat + f / 2), rng.choice([4, 6, 9]))
        elif kind == 'area_flat_rise':
            a['flat_time'] = flat
            a['area'] = sgn * sig(h * (r / 2 + flat + f / 2), rng.choice([4, 6, 9]))
        elif kind in ('amp_dur', 'amp_flat'):
            a['amplitude'] = sgn * sig(h, rng.choice([3, 6, 9]))
            if r is None:
                nr = math.ceil(abs(a['amplitude']) / S / R) + 1       # one raster more than the code may choose
                r = f = nr * R
            if kind == 'amp_dur':
                a['duration'] = tm(r + f + flat)
            else:
                a['flat_time'] = flat
        else:
            if flat < R:
                flat = tm(R)
            a['flat_time'] = flat
            a['flat_area'] = sgn * sig(h * flat, rng.choice([3, 6, 9]))
    if rng.random() < 0.35:
        a['delay'] = rng.choice([0.0, tm(rng.randint(0, 300) * R), tm(rng.uniform(0, 3e-3))])
    return case


def sibling(rng, case):
    """the same request once more under a system that differs in ONE respect (raster only, limits only, or
    nothing at all): the result may depend on the arguments and the system passed, never on earlier calls"""
    import copy
    c = copy.deepcopy(case)
    how = rng.choice(['raster', 'raster', 'limits', 'same'])
    if how == 'raster':
        c['sys']['raster'] = rng.choice([r for r in (4e-6, 5e-6, 10e-6, 20e-6) if r != c['sys']['raster']])
        if c['kind'] == 'area_dur':
            # the guard band of the requested duration (at least one raster above the minimum) depends on the raster
            G, S, R = eff_limits(c)
            n = math.ceil(cont_optimum(c['args']['area'], S, G) / R + 2 + 1e-6) + rng.choice([1, 2, 3, 10, 100])
            c['args']['duration'] = max(c['args']['duration'], tm(n * R))
    elif how == 'limits':
        if c['sys'].get('rise_time') is not None:
            c['sys']['rise_time'] = c['sys']['rise_time'] / rng.choice([2, 4])      # faster system
        else:
            c['sys']['max_slew'] = c['sys']['max_slew'] * rng.choice([2, 4])
            if c['sys']['slew_unit'] == 'Hz/m/s':
                c['sys']['max_slew'] = float(round(c['sys']['max_slew']))
    c['sibling'] = how
    return c


# ------------------------------------------------------------------------------------------------
# invalid / boundary stream: the exception class must equal the model's
INVALID_KINDS = ['none_given', 'area+amplitude', 'flat_area+amplitude', 'area+flat_area', 'all_three',
                 'flat_area+duration', 'flat_area_only', 'flat_area+flat0', 'area+flat_no_rise', 'amplitude_only',
                 'amplitude+dur+flat', 'channel', 'area_dur_short', 'area_dur_le_rise', 'area_dur_between',
                 'amp_dur_short', 'amp_dur_short', 'amp_beyond', 'slew_rise_beyond', 'slew_fall_beyond',
                 'area_beyond_grad', 'area_beyond_slew', 'flat_area_beyond', 'zero_ramps', 'zero_rise_only',
                 'negative_time', 'negative_time', 'negative_time', 'flat_area_no_flat_ramps', 'area_dur_flat',
                 'limit_and_timing', 'limit_and_timing']


def gen_invalid(rng, kind=None):
    s = gen_system(rng)
    o = make_opts(s)
    G0, S0, R = float(o.max_grad), float(o.max_slew), float(o.grad_raster_time)
    og, osl, G, S = pick_overrides(rng, G0, S0)
    kind = kind or rng.choice(INVALID_KINDS)
    a = new_args()
    a['max_grad'], a['max_slew'] = og, osl
    case = {'kind': 'inv.' + kind, 'sys': s, 'args': a, 'channel': 'x', 'threshold': False}
    sgn = rng.choice([1, -1])
    val = lambda: sgn * sig(rng.uniform(0.01, 0.9) * G * 20 * R, 6)      # some feasible area
    dur = lambda: tm(rng.randint(10, 400) * R)
    ramp = lambda: tm(rng.randint(2, 40) * R)
    if kind == 'none_given':
        if rng.random() < 0.5:
            a['duration'] = dur()
        if rng.random() < 0.3:
            a['rise_time'] = ramp()
    elif kind == 'area+amplitude':
        a['area'], a['amplitude'] = val(), sig(0.5 * G)
        if rng.random() < 0.5:
            a['duration'] = dur()
    elif kind == 'flat_area+amplitude':
        a['flat_area'], a['amplitude'] = val(), sig(0.5 * G)
        if rng.random() < 0.5:
            a['flat_time'] = dur()
    elif kind == 'area+flat_area':
        a['area'], a['flat_area'] = val(), val()
        if rng.random() < 0.5:
            a['flat_time'] = dur()
    elif kind == 'all_three':
        a['area'], a['flat_area'], a['amplitude'] = val(), val(), sig(0.5 * G)
    elif kind == 'flat_area+duration':
        a['flat_area'], a['duration'] = val(), dur()
        if rng.random() < 0.5:
            a['flat_time'] = dur()
    elif kind == 'flat_area_only':
        a['flat_area'] = val()
        if rng.random() < 0.5:
            a['rise_time'] = ramp()
    elif kind == 'flat_area+flat0':
        a['flat_area'], a['flat_time'] = rng.choice([val(), 0.0]), 0.0
    elif kind == 'area+flat_no_rise':
        a['area'], a['flat_time'] = val(), dur()
        if rng.random() < 0.3:
            a['duration'] = dur()
    elif kind == 'amplitude_only':
        a['amplitude'] = sgn * sig(0.5 * G)
        if rng.random() < 0.5:
            a['rise_time'] = tm(math.ceil(0.5 * G / S / R + 1) * R)
    elif kind == 'amplitude+dur+flat':
        a['amplitude'], a['duration'], a['flat_time'] = sgn * sig(0.5 * G), dur(), dur()
    elif kind == 'channel':
        case['channel'] = rng.choice(['p', 'X', '', 'xy', 'w'])
        a['area'] = val()
    elif kind == 'area_dur_short':
        area, _ = gen_area_value(rng, G, S)
        if area == 0:
            area = sig(G * G / S * 0.5)
        d_opt = cont_optimum(area, S, G)
        n = math.floor(d_opt / R - 1e-6) - rng.choice([1, 1, 2, 5])
        n = max(n, 0)
        a['area'] = area
        a['duration'] = tm(n * R) if n > 0 else tm(0.5 * R * rng.random())
        # n*R < optimum - R <= any admissible duration
    elif kind == 'area_dur_le_rise':
        r = ramp()
        a['area'], a['rise_time'] = val(), r
        a['duration'] = rng.choice([r, tm(r - R), tm(r / 2)])
        if rng.random() < 0.5:
            a['fall_time'] = ramp()
    elif kind == 'area_dur_between':
        r, f = ramp(), ramp()
        a['area'], a['rise_time'], a['fall_time'] = val(), r, f
        a['duration'] = tm(r + f - R)            # rise < duration < rise + fall (both >= 2 rasters)
        if a['duration'] <= r + R / 2:
            a['duration'] = tm(r + R)
            a['fall_time'] = tm(f + 2 * R)
    elif kind == 'amp_dur_short':
        # defect 14: the two ramps do not fit into the duration
        amp = sgn * sig(rng.uniform(0.05, 0.97) * G, 6)
        a['amplitude'] = amp
        if rng.random() < 0.5:
            nr = math.ceil(abs(amp) / S / R)             # the code chooses nr (or nr+1 on a float coincidence)
            k = rng.choice([1, 1, 2, 3])
            a['duration'] = tm(max(2 * nr - k, 0) * R) if 2 * nr - k > 0 else tm(0.5 * R)
        else:
            r = tm(math.ceil(abs(amp) / S / R + 1 + rng.randint(0, 20)) * R)
            f = rng.choice([None, tm(r + R * rng.randint(1, 5))])
            a['rise_time'], a['fall_time'] = r, f
            tot = r + (f or r)
            a['duration'] = tm(tot - R * rng.choice([1, 1, 2])) if rng.random() < 0.8 else tm(tot / 2)
    elif kind == 'amp_beyond':
        a['amplitude'] = sgn * sig(G * rng.uniform(1.02, 3), 6)
        a['flat_time' if rng.random() < 0.5 else 'duration'] = tm(1.0)
    elif kind in ('slew_rise_beyond', 'slew_fall_beyond'):
        amp = sgn * sig(rng.uniform(0.3, 0.97) * G, 6)
        need = abs(amp) / S
        good = tm((math.ceil(need / R) + 2) * R)
        bad = tm(need * rng.uniform(0.2, 0.95))
        if bad <= 0:
            bad = 1e-9
        a['amplitude'], a['flat_time'] = amp, dur()
        if kind == 'slew_rise_beyond':
            a['rise_time'], a['fall_time'] = bad, rng.choice([good, None, bad])
        else:
            a['rise_time'], a['fall_time'] = good, bad
    elif kind == 'area_beyond_grad':
        r = tm((math.ceil(G / S / R) + 2 + rng.randint(0, 5)) * R)      # slew never the limiting factor
        flat = tm(rng.randint(1, 100) * R)
        a['rise_time'] = r
        a['area'] = sgn * sig(G * rng.uniform(1.03, 2) * (r + flat), 6)
        if rng.random() < 0.5:
            a['duration'] = tm(2 * r + flat)
        else:
            a['flat_time'] = flat
    elif kind == 'area_beyond_slew':
        h = rng.uniform(0.3, 0.9) * G
        r = tm(h / S * rng.uniform(0.3, 0.9))
        if r <= 0:
            r = 1e-9
        flat = tm(rng.randint(1, 100) * R)
        a['rise_time'] = r
        a['area'] = sgn * sig(h * (r + flat), 6)
        if rng.random() < 0.5:
            a['duration'] = tm(2 * r + flat)
        else:
            a['flat_time'] = flat
    elif kind == 'flat_area_beyond':
        flat = dur()
        a['flat_time'] = flat
        a['flat_area'] = sgn * sig(G * rng.uniform(1.03, 2) * flat, 6)
    elif kind == 'zero_ramps':
        # rise_time = fall_time = 0 survive the `or` defaults: the slew test divides by zero before the
        # timing validation is reached (or the amplitude test fails first)
        a['rise_time'], a['fall_time'] = 0.0, 0.0
        which = rng.choice(['amp', 'area', 'fa', 'amp_dur', 'area_dur'])
        ft = dur()
        if which == 'amp':
            a['amplitude'], a['flat_time'] = sgn * sig(0.5 * G), ft
        elif which == 'area':
            a['area'], a['flat_time'] = sgn * sig(0.3 * G * ft), ft
        elif which == 'fa':
            a['flat_area'], a['flat_time'] = sgn * sig(0.3 * G * ft), ft
        elif which == 'amp_dur':
            a['amplitude'], a['duration'] = sgn * sig(0.5 * G), ft
        else:
            a['area'], a['duration'] = sgn * sig(0.3 * G * ft), ft
    elif kind == 'zero_rise_only':
        # 0 is falsy: `rise_time or fall_time` treats it as not given
        a['rise_time'] = 0.0
        a['fall_time'] = rng.choice([None, None, ramp()])
        a['amplitude'], a['flat_time'] = sgn * sig(rng.uniform(0.05, 0.9) * min(G, S * 2 * R), 6), dur()
    elif kind == 'negative_time':
        # user-supplied negative (or zero) times on every path: the error class must match the model
        carrier = rng.choice(['amp_flat', 'amp_dur', 'area_flat', 'area_dur', 'fa_flat'])
        which = rng.choice(['flat', 'rise', 'fall', 'both', 'duration', 'fall_zero'])
        h = rng.uniform(0.05, 0.5) * G
        r = tm(math.ceil(h / S / R + 1 + rng.randint(0, 10)) * R)
        f = rng.choice([None, r, tm(r + R * rng.randint(1, 5))])
        ft = dur()
        a['rise_time'], a['fall_time'] = r, f
        if which == 'rise':
            a['rise_time'] = -r
        elif which == 'fall':
            a['fall_time'] = -(f or r)
        elif which == 'both':
            a['rise_time'], a['fall_time'] = -r, -(f or r)
        elif which == 'fall_zero':
            a['fall_time'] = 0.0                 # falsy: replaced by rise_time, the call is valid
        if carrier in ('amp_flat', 'area_flat', 'fa_flat'):
            a['flat_time'] = -ft if which in ('flat', 'duration') else ft
        else:
            a['duration'] = -ft if which in ('flat', 'duration') else tm(2 * r + (f or r) + ft)
        if carrier.startswith('amp'):
            a['amplitude'] = sgn * sig(h, 6)
        elif carrier.startswith('area'):
            a['area'] = sgn * sig(h * (r + ft), 6)
        else:
            a['flat_area'] = sgn * sig(h * ft, 6)
    elif kind == 'flat_area_no_flat_ramps':
        # flat_area without flat_time but with ramps: flat_time stays None and reaches the timing test
        a['flat_area'] = val()
        r = ramp()
        a['rise_time'] = rng.choice([r, -r, r])
        a['fall_time'] = rng.choice([None, r, -r, tm(r + R)])
    elif kind == 'limit_and_timing':
        # both a limit violation and an invalid timing: the limit tests come first in the code
        which = rng.choice(['amp+short', 'amp+negflat', 'slew+negflat', 'slew+short', 'fallslew+negrise'])
        if which.startswith('amp'):
            a['amplitude'] = sgn * sig(G * rng.uniform(1.05, 3), 6)
        else:
            a['amplitude'] = sgn * sig(G * rng.uniform(0.3, 0.9), 6)
        need = abs(a['amplitude']) / S
        good = tm((math.ceil(need / R) + 2) * R)
        bad = tm(need * rng.uniform(0.2, 0.9)) or 1e-9
        if which == 'amp+short':
            a['duration'] = tm(need)                      # chosen ramps alone are >= 2*need
        elif which == 'amp+negflat':
            a['flat_time'] = -dur()
        elif which == 'slew+negflat':
            a['rise_time'], a['flat_time'] = bad, -dur()
        elif which == 'slew+short':
            a['rise_time'], a['fall_time'] = bad, good
            a['duration'] = tm((bad + good) / 2)
        else:
            a['rise_time'], a['fall_time'], a['flat_time'] = -good, bad, dur()
    elif kind == 'area_dur_flat':
        # area + duration + flat_time + rise_time: the code takes the flat_time branch and ignores `duration`
        r = ramp()
        flat = dur()
        a['rise_time'], a['flat_time'], a['duration'] = r, flat, tm(2 * r + flat + rng.choice([0, 1, 5]) * R)
        a['area'] = sgn * sig(rng.uniform(0.05, 0.9) * min(G, S * r) * (r + flat), 6)
    return case


# ------------------------------------------------------------------------------------------------
# threshold stream: decisions exactly on a float threshold; oracle-only
def gen_threshold(rng):
    import pypulseq as pp
    s = gen_system(rng)
    o = make_opts(s)
    G, S, R = float(o.max_grad), float(o.max_slew), float(o.grad_raster_time)
    kind = rng.choice(['min_duration', 'triangle_ramps', 'amp_at_grad', 'amp_at_slew', 'area_regime_boundary'])
    a = new_args()
    case = {'kind': 'thr.' + kind, 'sys': s, 'args': a, 'channel': 'x', 'threshold': True}
    sgn = rng.choice([1, -1])
    if kind == 'min_duration':
        a['area'], _ = gen_area_value(rng, G, S)
        try:
            with warnings.catch_warnings():
                warnings.simplefilter('ignore')
                g0 = pp.make_trapezoid('x', area=a['area'], system=o)
            a['duration'] = g0.rise_time + g0.flat_time + g0.fall_time
        except Exception:
            a['duration'] = tm(math.ceil(cont_optimum(a['area'], S, G) / R) * R)
    elif kind == 'triangle_ramps':
        r, f, _ = gen_ramps(rng, R, rng.choice(['sym', 'asym', 'rise']))
        r, f = eff_ramps(r, f)
        a['rise_time'], a['fall_time'] = r, f
        a['duration'] = tm(r + f)
        h = rng.uniform(0.05, 0.9) * min(G, S * min(r, f))
        if rng.random() < 0.5:
            a['area'] = sgn * sig(h * (r + f) / 2, 6)
        else:
            a['amplitude'] = sgn * sig(h, 6)
    elif kind == 'amp_at_grad':
        a['amplitude'] = sgn * G
        a['flat_time'] = tm(rng.randint(1, 100) * R)
    elif kind == 'amp_at_slew':
        n = rng.randint(1, 10)
        r = n * R
        h = S * r
        if h > G:
            h = G
        a['amplitude'] = sgn * h
        a['rise_time'] = r
        a['flat_time'] = tm(rng.randint(1, 100) * R)
    else:
        # area for which area / rise1 is (nearly) exactly max_grad
        n = max(1, math.ceil(G / S / R))
        a['area'] = sgn * (G * (n * R))
    return case


# ------------------------------------------------------------------------------------------------
# band stream: requests built so that the exact argument of a math.ceil is (nearly) an integer / perfect
# square; compared with the model, a divergence is admissible only inside the proven bands
def gen_band(rng):
    s = gen_system(rng)
    o = make_opts(s)
    G, S, R = float(o.max_grad), float(o.max_slew), float(o.grad_raster_time)
    kind = rng.choice(['sqrt', 'sqrt_dur', 'amp_flat', 'amp_dur', 'plateau', 'flat_area'])
    a = new_args()
    case = {'kind': 'band.' + kind, 'sys': s, 'args': a, 'channel': rng.choice(['x', 'y', 'z']), 'threshold': False}
    sgn = rng.choice([1, -1])
    nudge = lambda x: x * (1 + rng.choice([0, 0, 1, -1, 2, -2]) * 2.0 ** -52)
    if kind in ('sqrt', 'sqrt_dur'):
        k = rng.randint(1, 80)
        a['area'] = sgn * nudge(S * (k * R) ** 2)
        if kind == 'sqrt_dur':
            d_opt = cont_optimum(a['area'], S, G)
            a['duration'] = tm((math.ceil(d_opt / R + 2 + 1e-6) + rng.randint(2, 50)) * R)
    elif kind in ('amp_flat', 'amp_dur'):
        kmax = max(1, int(G / (S * R)))
        k = rng.randint(1, min(kmax, 200))
        a['amplitude'] = sgn * nudge(S * k * R)
        if abs(a['amplitude']) > G:
            a['amplitude'] = sgn * G
        if kind == 'amp_flat':
            a['flat_time'] = tm(rng.randint(0, 300) * R)
        else:
            a['duration'] = tm((2 * (k + 1) + rng.randint(0, 300)) * R)
    elif kind == 'plateau':
        k = int(G / (S * R)) + rng.randint(3, 300)
        a['area'] = sgn * nudge(G * (k * R))
    else:
        kmax = max(1, int(G / (S * R)))
        k = rng.randint(1, min(kmax, 200))
        ft = tm(rng.randint(1, 300) * R)
        a['flat_time'] = ft
        a['flat_area'] = sgn * nudge(S * k * R * ft)
        if abs(a['flat_area']) / ft > G:
            a['flat_area'] = sgn * G * ft * 0.5
    return case


# ------------------------------------------------------------------------------------------------
# fixed corpus (run first): the calls of the repo's own tests, the reproducers of defects 14 and 18, and
# thresholds whose binary64 arithmetic is exact (rise = 2 rasters), so the exact model decides identically
def corpus():
    dflt = {'max_grad': 40, 'grad_unit': 'mT/m', 'max_slew': 170, 'slew_unit': 'T/m/s', 'raster': 10e-6}
    fast = {'max_grad': 80, 'grad_unit': 'mT/m', 'max_slew': 1000, 'slew_unit': 'T/m/s', 'raster': 10e-6}
    cs = []

    def c(name, sysd=dflt, channel='x', **kw):
        a = new_args()
        a.update(kw)
        cs.append({'kind': 'corpus.' + name, 'sys': dict(sysd), 'args': a, 'channel': channel, 'threshold': False})
    # tests/test_make_trapezoid.py::test_generation_methods
    c('t.amp_dur', amplitude=1.0, duration=1.0)
    c('t.amp_flat', amplitude=1.0, flat_time=1.0)
    c('t.fa_flat', flat_area=1.0, flat_time=1.0)
    c('t.area_tri', area=1.0)
    c('t.area_trap', area=1703040.0 * 2)
    c('t.area_dur', area=1.0, duration=1.0)
    c('t.area_dur_rise', area=1.0, duration=1.0, rise_time=0.01)
    c('t.area_flat_rise', area=1.0, flat_time=0.5, rise_time=0.1)
    # error tests of the repo
    c('e.channel', channel='p')
    c('e.none')
    c('e.flat_time', flat_time=10.0, area=10.0)
    c('e.area_large', area=1e6, duration=1e-6)
    c('e.area_large_rise', area=1e6, duration=1e-6, rise_time=1e-7)
    c('e.amp_only', amplitude=1.0)
    c('e.amp_large', amplitude=1e10, duration=1.0)
    c('e.dur_short', area=1.0, duration=0.1, rise_time=0.1)
    c('e.fa_dur', flat_area=1.0, duration=1.0)
    c('e.fa_amp', flat_area=1.0, amplitude=1.0)
    c('e.area_amp', area=1.0, amplitude=1.0)
    # defect 14 (DESIGN.md section 8): negative flat_time must not be returned
    c('d14', amplitude=1e6, duration=1e-4)
    c('d14.neg', amplitude=-1e6, duration=1e-4)
    c('d14.rise', amplitude=1e5, duration=1e-4, rise_time=6e-5)
    c('d14.asym', amplitude=1e5, duration=1e-4, rise_time=3e-5, fall_time=8e-5)
    # defect 18: area + flat_time + asymmetric ramps
    c('d18', sysd=fast, area=280.8, flat_time=368e-6, rise_time=92e-6, fall_time=80e-6)
    c('d18.slow', area=28.08, flat_time=368e-6, rise_time=92e-6, fall_time=80e-6)
    c('d18.neg', area=-28.08, flat_time=368e-6, rise_time=80e-6, fall_time=120e-6)
    c('d18.fallonly', area=28.08, flat_time=368e-6, fall_time=80e-6)
    # exact thresholds: area=1 on the default system has rise = 2 rasters = 2e-5 exactly, minimum duration 4e-5
    c('x.min_dur', area=1.0, duration=4e-5)
    c('x.min_dur_neg', area=-1.0, duration=4e-5)
    c('x.below_min_dur', area=1.0, duration=3e-5)
    c('x.triangle_ramps', area=1.0, duration=4e-5, rise_time=2e-5)
    c('x.triangle_amp', amplitude=50000.0, duration=4e-5, rise_time=2e-5)
    c('x.triangle_amp_chosen', amplitude=50000.0, duration=2e-5)
    c('x.amp_at_grad', amplitude=1703040.0, flat_time=1e-3)
    c('x.amp_at_grad_neg', amplitude=-1703040.0, flat_time=1e-3)
    c('x.dur_eq_rise', area=1.0, duration=2e-5, rise_time=2e-5)
    c('x.zero_area', area=0.0)
    c('x.zero_amp', amplitude=0.0, flat_time=1e-3)
    c('x.zero_amp_dur', amplitude=0.0, duration=1e-3)
    c('x.zero_fa', flat_area=0.0, flat_time=1e-3)
    c('x.flat0', area=1.0, flat_time=0.0, rise_time=1e-4)
    c('x.override_slew', area=100.0, max_slew=1e9)
    c('x.override_grad', area=100.0, max_grad=1e5)
    c('x.override_both', area=-100.0, max_grad=2e6, max_slew=2e10)
    c('x.delay', area=10.0, delay=1.5e-4)
    # a system described by max_grad and an OFF-RASTER rise_time (slew = max_grad / rise_time): ramps chosen by
    # the function must still be raster multiples on every argument set
    rt = {'max_grad': 32, 'grad_unit': 'mT/m', 'max_slew': None, 'slew_unit': 'Hz/m/s', 'raster': 10e-6, 'rise_time': 125e-6}
    c('o.rise_time.fa', sysd=rt, flat_area=250.0, flat_time=2e-3)
    c('o.rise_time.fa_neg', sysd=rt, flat_area=-1000.0, flat_time=1.28e-3)
    c('o.rise_time.amp_flat', sysd=rt, amplitude=3e5, flat_time=1e-3)
    c('o.rise_time.amp_dur', sysd=rt, amplitude=-3e5, duration=2e-3)
    c('o.rise_time.area', sysd=rt, area=500.0)
    c('o.rise_time.area_dur', sysd=rt, area=500.0, duration=5e-3)
    c('o.rise_time.at_limit', sysd=rt, amplitude=32 * 42576.0, flat_time=1e-3)
    # round-2 findings (a) and (c): exactly triangular request with asymmetric ramps whose binary64 sum rounds
    # up (rejected today, accepted with the proposed eps-tolerant test); over-determined request whose
    # `duration` is ignored today (rejected with the proposed consistency test)
    c('f.a.triangle_asym', area=1.0, duration=3e-4, rise_time=1e-4, fall_time=2e-4)
    c('f.a.triangle_sym', area=1.0, duration=6e-5, rise_time=3e-5)
    c('f.c.duration_ignored', area=1.0, duration=1e-3, flat_time=2e-4, rise_time=1e-4)
    c('f.c.duration_consistent', area=1.0, duration=4e-4, flat_time=2e-4, rise_time=1e-4)
    # non-positive ramps / negative flat time must be rejected (final timing validation)
    c('w.neg_flat', amplitude=1000.0, flat_time=-1e-4)
    c('w.neg_flat_fa', flat_area=1.0, flat_time=-1e-3)
    c('w.neg_flat_area', area=1.0, flat_time=-1e-4, rise_time=3e-4)
    c('w.neg_rise', amplitude=1000.0, flat_time=1e-3, rise_time=-1e-4)
    c('w.neg_fall', amplitude=1000.0, flat_time=1e-3, rise_time=1e-4, fall_time=-1e-4)
    c('w.zero_ramps', amplitude=1000.0, flat_time=1e-3, rise_time=0.0, fall_time=0.0)
    c('w.zero_rise_is_default', amplitude=1000.0, flat_time=1e-3, rise_time=0.0)
    c('w.neg_rise_area_dur', area=1.0, duration=1e-3, rise_time=-1e-4)
    c('w.fa_no_flat_rise', flat_area=1.0, rise_time=1e-4)
    c('w.fa_no_flat_neg_rise', flat_area=1.0, rise_time=-1e-4)
    c('w.fa_no_flat', flat_area=1.0)
    return cs


# ------------------------------------------------------------------------------------------------
# implementation driver
def classify(e):
    m = str(e)
    t = type(e).__name__
    table = [
        ('ValueError', 'Invalid channel', 'channel'),
        ('NotImplementedError', 'Flat Area + Amplitude', 'ni_flat_area_amp'),
        ('NotImplementedError', 'Amplitude + Area', 'ni_amp_area'),
        ('NotImplementedError', 'Flat Area + Duration', 'ni_flat_area_dur'),
        ('ValueError', "Must supply either 'area', 'flat_area' or 'amplitude'", 'must_supply'),
        ('ValueError', 'When `flat_time` is provided', 'flat_time_needs'),
        ('AssertionError', 'Minimum required duration', 'min_duration'),
        ('AssertionError', 'Probably amplitude is violated', 'not_possible'),
        ('ValueError', 'too short for the given `rise_time`', 'dur_short_rise'),
        ('ValueError', 'Must supply `rise_time`', 'must_rise'),
        ('ValueError', 'The `duration` is inconsistent', 'dur_inconsistent'),
        ('ValueError', 'Must supply area or duration', 'area_or_duration'),
        ('ValueError', 'Invalid timing:', 'timing'),
        ('ValueError', 'Refined amplitude', 'amp'),
        ('ValueError', 'for ramp up is larger', 'slew_rise'),
        ('ValueError', 'for ramp down is larger', 'slew_fall'),
    ]
    for tt, frag, cls in table:
        if t == tt and frag in m:
            return cls
    if t == 'UnboundLocalError':
        return 'unbound'
    if t == 'ZeroDivisionError':
        return 'zerodiv'
    if t == 'TypeError':
        return 'type'
    return 'other:%s:%s' % (t, m[:60])


FIELDS = ['amplitude', 'rise_time', 'flat_time', 'fall_time', 'area', 'flat_area', 'delay']


def impl_call(case):
    import pypulseq as pp
    o = make_opts(case['sys'])
    kw = {k: v for k, v in case['args'].items() if v is not None}
    # about one call in 16 goes through the LIBRARY DEFAULT: the case's system is installed with set_as_default() and the
    # `system` argument is omitted (same expected result; exposes defaults bound at import time or cached between calls)
    import hashlib as _h
    omit = _h.sha1(repr(sorted((k, repr(v)) for k, v in case['args'].items())).encode()).hexdigest()[0] == '0'
    old = pp.Opts.default
    try:
        with warnings.catch_warnings():
            warnings.simplefilter('ignore')
            if omit:
                o.set_as_default()
                g = pp.make_trapezoid(case['channel'], **kw)
            else:
                g = pp.make_trapezoid(case['channel'], system=o, **kw)
    except Exception as e:  # noqa: BLE001
        return ('ERR', classify(e))
    finally:
        if omit:
            old.set_as_default()
    try:
        vals = [F(getattr(g, f)) for f in FIELDS]
    except Exception as e:  # noqa: BLE001
        return ('ERR', 'other:result-fields:%r' % (e,))
    if g.type != 'trap' or g.channel != case['channel'] or g.first != 0 or g.last != 0:
        return ('ERR', 'other:event-attributes')
    return ('OK', vals)


_EXPECT = None


def expect():
    """EXPECT of the translator plug-in: which form of the two proposed repairs the repository is expected to have"""
    global _EXPECT
    if _EXPECT is None:
        import importlib.util
        import os
        path = os.path.join(os.path.dirname(os.path.dirname(os.path.abspath(__file__))), 'gensec', 'trap.py')
        spec = importlib.util.spec_from_file_location('gensec_trap_for_c11', path)
        m = importlib.util.module_from_spec(spec)
        spec.loader.exec_module(m)
        _EXPECT = dict(m.EXPECT)
    return _EXPECT


# ------------------------------------------------------------------------------------------------
# oracle: the property's predicate, exact Fractions on the returned event
def oracle(ctx, case, vals):
    """returns the list of failed clause signatures (empty = holds)"""
    a = case['args']
    amp, rise, flat, fall, area_f, flat_area_f, _delay = vals
    o = make_opts(case['sys'])
    G = F(a['max_grad']) if a['max_grad'] is not None else F(o.max_grad)
    S = F(a['max_slew']) if a['max_slew'] is not None else F(o.max_slew)
    R = F(o.grad_raster_time)
    fails = []

    def bad(sig_, **detail):
        fails.append(sig_)
        ctx.fail('C11/' + sig_, case, {k: (float(v) if isinstance(v, Fraction) else v) for k, v in detail.items()})
    wave_area = amp * (rise / 2 + flat + fall / 2)
    only = lambda k: a[k] is not None and all(a[j] is None for j in ('area', 'flat_area', 'amplitude') if j != k)
    # a requested flat_time in (-eps, 0) is treated by the code as rounding noise and replaced by 0; the exact
    # clauses on area / flat area / flat time are stated for requests with flat_time >= 0 (see Props/C11.v)
    noise_flat = a['flat_time'] is not None and -1e-9 < a['flat_time'] < 0
    if noise_flat:
        ctx.count('oracle.requested_flat_time_in_clamp_band')
        only = lambda k: False
    # requested area / flat area / amplitude
    if only('area') and not close(wave_area, F(a['area']), F(a['area'])):
        bad('area', requested=a['area'], realised=wave_area)
    if only('flat_area') and not close(amp * flat, F(a['flat_area']), F(a['flat_area'])):
        bad('flat_area', requested=a['flat_area'], realised=amp * flat)
    if only('amplitude') and not close(amp, F(a['amplitude']), F(a['amplitude'])):
        bad('amplitude', requested=a['amplitude'], returned=amp)
    # requested timing
    if a['duration'] is not None and a['flat_time'] is None:
        if not close(rise + flat + fall, F(a['duration']), F(a['duration'])):
            bad('duration', requested=a['duration'], returned=rise + flat + fall)
    if a['duration'] is not None and a['flat_time'] is not None and a['flat_time'] >= 0 and only('area'):
        # over-determined request: the repository ignores `duration` here (round-2 finding, proposed repair
        # c11_fixC); demanded as soon as gensec/trap.py EXPECT says the code checks it
        honoured = close(rise + flat + fall, F(a['duration']), F(a['duration']), ab=Fraction(1001, 10 ** 12))
        if expect()['flat_checks_duration']:
            if not honoured:
                bad('duration', requested=a['duration'], returned=rise + flat + fall, with_flat_time=a['flat_time'])
        elif not honoured:
            ctx.count('finding.duration_ignored_with_flat_time')
    if a['flat_time'] is not None and not noise_flat and not close(flat, F(a['flat_time']), F(a['flat_time'])):
        bad('flat_time', requested=a['flat_time'], returned=flat)
    area_only = only('area') and a['duration'] is None and a['flat_time'] is None
    if not area_only:
        if a['rise_time'] and not close(rise, F(a['rise_time'])):
            bad('rise_time', requested=a['rise_time'], returned=rise)
        if a['fall_time'] and not close(fall, F(a['fall_time'])):
            bad('fall_time', requested=a['fall_time'], returned=fall)
    # derived fields
    if not close(area_f, wave_area, max(abs(wave_area), abs(amp * flat), abs(amp * rise))):
        bad('area-field', field=area_f, waveform=wave_area)
    if not close(flat_area_f, amp * flat):
        bad('flat_area-field', field=flat_area_f, waveform=amp * flat)
    # timings chosen by the function: positive integer multiples of the raster
    chosen = area_only or (not a['rise_time'] and not a['fall_time'])
    if chosen:
        for nm, v in (('rise', rise), ('fall', fall)):
            q = v / R
            n = round(q)
            if n < 1 or abs(q - n) > Fraction(n, 10 ** 9):
                bad('raster', which=nm, value=v, raster=R)
                break
    if area_only:
        q = flat / R
        n = round(q)
        if n < 0 or abs(q - n) > Fraction(max(n, 1), 10 ** 9):
            bad('raster', which='flat', value=flat, raster=R)
    # flat time never negative
    if flat < 0:
        bad('flat-negative', flat_time=flat)
    # effective limits, up to the code's slack (eps = 1e-9 absolute on max_grad, relative on max_slew)
    if abs(amp) > G * (1 + Fraction(2, 10 ** 9)) + Fraction(2, 10 ** 9):
        bad('limit-grad', amplitude=amp, max_grad=G)
    if rise > 0 and abs(amp) > S * rise * (1 + Fraction(3, 10 ** 9)):
        bad('limit-slew-rise', amplitude=amp, rise=rise, max_slew=S)
    if fall > 0 and abs(amp) > S * fall * (1 + Fraction(3, 10 ** 9)):
        bad('limit-slew-fall', amplitude=amp, fall=fall, max_slew=S)
    # area-only: at most two rasters longer than the shortest continuous-time trapezoid within the limits
    if area_only:
        A = abs(F(a['area']))
        dur = (rise + flat + fall) * (1 - Fraction(1, 10 ** 9)) - 2 * R
        if dur > 0:
            if A * S <= G * G:
                ok = dur * dur <= 4 * A / S            # optimum 2*sqrt(A/S), compared without a square root
            else:
                ok = dur <= A / G + G / S
            if not ok:
                bad('not-optimal', duration=rise + flat + fall, raster=R,
                    optimum=cont_optimum(float(A), float(S), float(G)))
    return fails


# ------------------------------------------------------------------------------------------------
# binary64 in front of math.ceil: the bands of Props/C11.v ceil_robust_band / ceil_sqrt_div_robust_band.
# The model evaluates ceil(q) and ceil(sqrt(x)/r) exactly, the code on a computed value with a relative
# error below DELTA (two or three correctly rounded operations: < 2^-51).  By the two theorems the integer
# can differ (by exactly one) only if the exact argument lies in these bands; a one-raster divergence of
# model and code is admissible exactly then.
DELTA = Fraction(1, 2 ** 50)


def _iceil(q):
    return -((-q.numerator) // q.denominator)


def band_plain(q):
    """exact q >= 0 handed to math.ceil: (n = ceil(q), may the code obtain n+1 / n-1)"""
    n = _iceil(q)
    up = q <= n < q + DELTA * abs(q)
    down = q - DELTA * abs(q) <= n - 1 < q
    return n, (up or down)


def band_sqrt(y):
    """exact y = x / r^2 >= 0 whose square root is handed to math.ceil"""
    c = _iceil(y)
    n = math.isqrt(c)
    if n * n < c:
        n += 1
    up = y <= n * n < (1 + DELTA) ** 2 * y
    down = n >= 1 and (1 - DELTA) ** 2 * y <= (n - 1) ** 2 < y
    return n, (up or down)


def ceil_bands(case):
    """names of the math.ceil calls reached by this request whose exact argument lies in its band
    (an independent exact evaluation of the arguments, not the model)"""
    a = case['args']
    given = [k for k in ('area', 'flat_area', 'amplitude') if a[k] is not None]
    if len(given) != 1 or case['channel'] not in ('x', 'y', 'z'):
        return []
    o = make_opts(case['sys'])
    G = F(a['max_grad']) if a['max_grad'] is not None else F(o.max_grad)
    S = F(a['max_slew']) if a['max_slew'] is not None else F(o.max_slew)
    R = F(o.grad_raster_time)
    if G <= 0 or S <= 0 or R <= 0:
        return []
    r0 = a['rise_time'] or a['fall_time']
    hits = []
    if given[0] == 'area':
        if a['flat_time'] is not None or (a['duration'] is not None and r0 is not None):
            return []
        A = abs(F(a['area']))
        n1, b1 = band_sqrt(A / S / (R * R))
        if b1:
            hits.append('sqrt')
        rise1 = max(n1, 1) * R
        if A / rise1 > G + Fraction(1, 10 ** 9):
            n2, b2 = band_plain(A / G / R)
            if b2:
                hits.append('effective_time')
            if n2 > 0:
                _, b3 = band_plain(A / (n2 * R) / S / R)
                if b3:
                    hits.append('plateau_rise')
    elif given[0] == 'amplitude':
        if r0 is None:
            _, b = band_plain(abs(F(a['amplitude'])) / S / R)
            if b:
                hits.append('amplitude_rise')
    else:
        if r0 is None and a['flat_time']:
            amp = abs(F(a['flat_area']) / F(a['flat_time']))
            _, b = band_plain(max(amp / S, R) / R)
            if b:
                hits.append('flat_area_rise')
    return hits


# ------------------------------------------------------------------------------------------------
# model
def model_line(case):
    a = case['args']
    o = make_opts(case['sys'])

    def opt(v):
        return '0' if v is None else '1 ' + qtok(F(v))
    parts = ['trap.make', '1' if case['channel'] in ('x', 'y', 'z') else '0',
             opt(a['amplitude']), opt(a['area']), opt(a['delay']), opt(a['duration']), opt(a['fall_time']),
             opt(a['flat_area']), opt(a['flat_time']), opt(a['max_grad']), opt(a['max_slew']), opt(a['rise_time']),
             qtok(F(o.max_grad)), qtok(F(o.max_slew)), qtok(F(o.grad_raster_time))]
    return ' '.join(parts)


def parse_model(line):
    t = Toks(line)
    tag = t.next()
    if tag == 'OK':
        return ('OK', [t.q() for _ in FIELDS])
    if tag == 'ERR':
        return ('ERR', t.next())
    return ('ERR', 'model:' + line[:80])


def compare(ctx, case, impl, model, oracle_fails):
    """model vs implementation; a one-raster difference of a chosen timing is benign only if the exact argument of a
    math.ceil reached by the call lies in its binary64 band (theorems ceil_robust_band, ceil_sqrt_div_robust_band)
    AND the implementation's event satisfies the oracle"""
    if impl[0] != model[0]:
        ctx.mismatch('make', case, {'impl': impl[0] + ' ' + (impl[1] if impl[0] == 'ERR' else ''),
                                    'model': model[0] + ' ' + (model[1] if model[0] == 'ERR' else '')})
        return
    if impl[0] == 'ERR':
        if impl[1] != model[1]:
            ctx.mismatch('make', case, {'impl_error': impl[1], 'model_error': model[1]})
        return
    diffs = {}
    for nm, iv, mv in zip(FIELDS, impl[1], model[1]):
        if not close(iv, mv):
            diffs[nm] = (float(iv), float(mv))
    if not diffs:
        return
    R = F(make_opts(case['sys']).grad_raster_time)
    one = R * (1 + Fraction(1, 10 ** 6))
    d_rise = abs(impl[1][1] - model[1][1])
    d_fall = abs(impl[1][3] - model[1][3])
    d_tot = abs(sum(impl[1][1:4]) - sum(model[1][1:4]))
    raster_step = d_rise <= one and d_fall <= one and d_tot <= 2 * one
    bands = ceil_bands(case)
    if bands and raster_step and not oracle_fails:
        # admissible by ceil_robust_band / ceil_sqrt_div_robust_band, and the event still satisfies the property
        ctx.benign_divergence('make', case, {'diffs': diffs, 'bands': bands,
                                             'why': 'exact argument of math.ceil within its binary64 band'})
        ctx.count('corr.benign_ceil_flip')
        if not case['kind'].startswith('band'):
            ctx.count('corr.benign_ceil_flip_outside_band_stream')
    else:
        ctx.mismatch('make', case, {'diffs': diffs, 'bands': bands})


def process(ctx, cases):
    """implementation + oracle on every case, model comparison in one batch"""
    impls, ofails = [], []
    for c in cases:
        r = impl_call(c)
        impls.append(r)
        fl = []
        if r[0] == 'OK':
            fl = oracle(ctx, c, r[1])
        ofails.append(fl)
        key = (c['channel'], json.dumps(c['sys'], sort_keys=True), json.dumps(c['args'], sort_keys=True))
        nontrivial = r[0] == 'OK' or r[1] not in PRESENCE_CLASSES
        ctx.evaluated(key, nontrivial=nontrivial)
        ctx.count('kind.' + c['kind'].split('.')[0] + ('.' + c['kind'].split('.')[1] if c['kind'].startswith(('inv', 'thr', 'band')) else ''))
        ctx.count('result.' + ('OK' if r[0] == 'OK' else 'ERR.' + r[1].split(':')[0]))
        for b in ceil_bands(c):
            ctx.count('band.' + b)
            ctx.count('band.cases.' + ('band_stream' if c['kind'].startswith('band') else 'other_streams'))
        if r[0] == 'OK':
            ctx.count('raster.%gus' % (c['sys']['raster'] * 1e6))
            ctx.count('units.%s|%s' % (c['sys']['grad_unit'], c['sys']['slew_unit']))
            if c['sys'].get('rise_time') is not None:
                q = F(c['sys']['rise_time']) / F(c['sys']['raster'])
                ctx.count('opts.rise_time.' + ('on_raster' if abs(q - round(q)) < Fraction(1, 10 ** 6) else 'off_raster'))
            if c['sys'].get('gamma') is not None:
                ctx.count('opts.gamma_given')
            if c['sys'].get('other'):
                ctx.count('opts.other_rasters_given')
            if c['args']['max_grad'] is not None or c['args']['max_slew'] is not None:
                ctx.count('overrides.given')
            if c.get('ramps'):
                ctx.count('ramps.' + c['ramps'])
            if c.get('regime'):
                ctx.count('regime.' + c['regime'])
            if c.get('sibling'):
                ctx.count('sibling.' + c['sibling'])
            v = r[1]
            ctx.count('sign.' + ('zero' if v[0] == 0 else 'pos' if v[0] > 0 else 'neg'))
            ctx.count('shape.' + ('triangle' if v[2] == 0 else 'trapezoid'))
    if ctx.model_available:
        todo = [i for i, c in enumerate(cases) if not c.get('threshold')]
        ctx.count('corr.threshold_oracle_only', len(cases) - len(todo))
        outs = ctx.model([model_line(cases[i]) for i in todo])
        for i, o in zip(todo, outs):
            compare(ctx, cases[i], impls[i], parse_model(o), ofails[i])
    return impls


def run(ctx):
    n = {'quick': 6000, 'thorough': 300000}[ctx.tier]
    process(ctx, corpus())
    rv, ri, rt, rb = ctx.rng('valid'), ctx.rng('invalid'), ctx.rng('threshold'), ctx.rng('band')
    done = 0
    batch = 1000
    while done < n:
        if ctx.out_of_time():
            ctx.notes.append('time budget reached after %d generated calls' % done)
            break
        cases = []
        for i in range(batch):
            u = (done + i) % 20
            if u < 13:
                cases.append(gen_valid(rv))
                if rv.random() < 0.1:
                    cases.append(sibling(rv, cases[-1]))
            elif u < 17:
                cases.append(gen_invalid(ri))
            elif u < 19:
                cases.append(gen_threshold(rt))
            else:
                cases.append(gen_band(rb))
        impls = process(ctx, cases)
        if done == 0:
            for c, r in zip(cases[:40:10], impls[:40:10]):
                ctx.sample({'case': c, 'result': r[0], 'fields_or_class': [float(v) for v in r[1]] if r[0] == 'OK' else r[1]})
        done += batch
    # divergences inside the dedicated band stream are justified case by case by the band theorems; elsewhere
    # (random values) they must stay rare
    outside = ctx.dist.get('corr.benign_ceil_flip_outside_band_stream', 0)
    if ctx.model_cases and outside > BENIGN_BUDGET * ctx.model_cases + 2:
        ctx.mismatch('make', {'note': 'benign-divergence budget exceeded outside the band stream'},
                     {'benign_outside_band_stream': outside, 'model_cases': ctx.model_cases})


def replay(ctx, case):
    r = impl_call(case)
    res = {'impl': r[0], 'impl_value': [float(v) for v in r[1]] if r[0] == 'OK' else r[1]}
    fl = []
    if r[0] == 'OK':
        fl = oracle(ctx, case, r[1])
    res['oracle_failed_clauses'] = fl
    if ctx.model_available and not case.get('threshold'):
        m = parse_model(ctx.model([model_line(case)])[0])
        res['model'] = m[0]
        res['model_value'] = [float(v) for v in m[1]] if m[0] == 'OK' else m[1]
        compare(ctx, case, r, m, fl)
    return res
