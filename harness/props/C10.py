"""C10 — check_timing reports exactly the raster and dead-time violations."""
import copy
import math
import os
import tempfile
import warnings
from fractions import Fraction

import timinggen as tg
from common import F

ID = 'C10'
GEN_SECTIONS = ['GenTiming', 'FP_timing_check', 'FP_get_block']
COQ_TARGETS = ['Props/C10.vo']
EXTRACT_TARGETS = ['Extract/Ex_timing.vo']
RUNNER = 'timing'
LEVEL = 'proof'
MANIFEST = {
    'text': "Theorems (Coq, all systems and all block lists, by induction over blocks/events): the model of "
            "check_timing — whose tolerance, comparison operators, raster per event type, checked-field lists, dead-time "
            "expressions and calc_duration end-time expressions are re-read from the source on every run — returns the empty "
            "report iff the declarative predicate TimingValid (written from the property text) holds, and an entry "
            "(block, event, field, kind) is reported iff that clause is violated, exactly once (soundness, completeness, NoDup); "
            "div_check accepts t iff t lies within 1e-6 raster of an integer multiple; the RF clause in the property-text reading (delay + shape duration + ring-down fits) is equivalent for every block as get_block decodes it (decoded-RF invariant t[-1] <= shape_dur + eps proved from the model of rf_from_lib_data); ok implies the write-time assertion "
            "when the stored duration covers the content (sub-eps counterexample stated as _refuted, reproduced on the implementation as known finding C10/ok-but-write-raises; the theorems are parameterised by which duration the source tests against the block raster, so they also hold, unconditionally, for the repaired source). The extracted model is "
            "run against Sequence.check_timing() on ~1300 (quick) random valid and single/multi-fault sequences over 8 "
            "raster families; an independent exact-Fraction oracle must equal the reported multiset; ok sequences are "
            "written under warnings capture.",
    'note': 'Trusted: Coq kernel; translator patterns for check_timing.py/calc_duration.py/block.py; extraction '
            '(ExtrOcamlBasic) + driver; get_block decoding is taken from the implementation (its output is the model input); '
            'binary64 arithmetic is outside the model: cases within 1% of the 1e-6-raster tolerance or 1e-12 s of eps are '
            'oracle-one-sided only; "RF end" in the exact multiset oracle is the code\'s t[-1] (last sample), the shape_dur '
            'reading is covered by the mismatch clause (theorem C10_ringdown_implies_mismatch).',
    'technique': 'Rocq/Coq proof over a Gallina model parameterised by source-derived tables + extraction-based correspondence',
}
BUDGET = {'quick': 75, 'thorough': 1500}
ESCALATE_BUDGET = 150
SEARCH_BUDGET = 120
MISMATCH_BUDGET = 0.0
RULE = ('sequences of 1-10 blocks on systems drawn from 8 raster families (Siemens 10/1/10/0.1 us, GE 4/2/4/2, 20 us gradients, '
        '6.4 us, fine 0.5 us rf, and three with all four rasters pairwise different: block 10 / grad 5, block 10 / grad 20 / rf 0.5 / '
        'adc 0.025, block 20 / grad 10) with random RF dead/ring-down and ADC dead times; blocks mix block/sinc RF, trapezoids '
        '(incl. flat 0), extended trapezoids (also with tt[0] > 0), arbitrary gradients, ADCs, triggers, labels and padding '
        'delays, all raster-aligned (stream valid: report must be empty, write() must not warn). Fault streams overwrite one or '
        '2-4 timing fields: +0.5 / +0.3 / +2e-4 / +1e-5 raster (must be reported), +1e-9 raster (must not), ADC delay on the '
        'ADC but not the RF raster, negative delays, delays below the dead time, events built for a system with shorter dead '
        'times / ring-down, stored block duration cut, extended or moved off the block raster, a field or the block duration moved by one step of ANOTHER raster of the system, repeated blocks (same events, other padding, valid or off raster), seconds-long delays (1e5-3e6 block rasters) with tiny offsets; 30% of the RF/ADC dead and ring-down times are NOT on the RF raster (delays one aligned step below them must be reported). A many-violation stream repeats faulty blocks 4-40 times (tens to hundreds of entries); for every case check_timing(print_errors=True) and a following plain call must return the same (ok, report) as the first call. Object histories (110 quick, block cache on and off): read() is called with remove_duplicates / detect_rf_use on and off and the report of the used object must equal that of a fresh object reading the same file; one Sequence object goes through add_block / set_block / read() of another (mostly invalid) file / remove_duplicates(in_place) / assignment of another system / repeated check_timing, and after every step the report must equal the oracle for the CURRENT content of the object. Oracle: TimingValid/Violates '
        'recomputed with exact Fractions from the decoded blocks must equal the multiset of (block,event,field,kind) returned '
        'by seq.check_timing(); every injected fault must appear. Correspondence: the extracted Coq model must return the same '
        'ordered report and the same calc_duration per block. non-trivial = at least one error reported or >= 3 event kinds')
TRUSTED = ['Sequence.get_block / rf_from_lib_data decoding (fingerprinted): the decoded attributes are the model input',
           'binary64 division and rounding inside div_check: sampled; threshold-near cases are one-sided']
ASSUMPTIONS = ['model decides on the exact rational values of the doubles; generated perturbations stay a factor >= 10 away '
               'from the 1e-6 raster tolerance and from eps']

FRACS = [Fraction(1, 2), Fraction(3, 10), Fraction(2, 10 ** 4), Fraction(1, 10 ** 5), Fraction(1, 10 ** 9)]


def raster_fields(ev, s):
    """(attribute to overwrite, reported field, raster) of the raster-checked fields of an event dict"""
    k = ev['k']
    if k in ('rfb', 'rfs'):
        return [('delay', 'delay', s['rf'])]
    if k == 'trap':
        return [('delay', 'delay', s['grad']), ('rise_time', 'rise_time', s['grad']), ('flat_time', 'flat_time', s['grad']),
                ('fall_time', 'fall_time', s['grad'])]
    if k in ('ext', 'extoff', 'arb'):
        return [('delay', 'delay', s['grad'])]
    if k == 'adc':
        return [('delay', 'delay', s['rf']), ('dwell', 'dwell', s['adc'])]
    return []


def cur_value(ev, attr, opts):
    """current value of an attribute of the event as it will be built"""
    e = tg.build_event(ev, opts, opts)
    return getattr(e, attr)


def inject(rng, case, opts, kinds=None):
    """apply one fault in place; returns (description, [expected report entries]) or None when not applicable"""
    s = case['sys']
    nb = len(case['blocks'])
    kind = rng.choice(kinds or ['off', 'off', 'off', 'off', 'adc_on_adc_raster', 'neg', 'dead_rf', 'dead_adc', 'alt', 'stored_cut',
                                'stored_long', 'stored_off', 'dur_off', 'dur_off', 'other_raster', 'other_raster',
                                'dur_other_raster', 'twin_off'])
    order = list(range(nb))
    rng.shuffle(order)
    for bi in order:
        blk = case['blocks'][bi]
        evs = [e for e in blk['events'] if tg.slot_of(e)]
        rng.shuffle(evs)
        if kind == 'off':
            for ev in evs:
                fs = raster_fields(ev, s)
                attr, field, ras = rng.choice(fs)
                if attr in ev['set']:
                    continue
                frac = rng.choice(FRACS)
                old = cur_value(ev, attr, opts)
                ev['set'][attr] = float(F(old) + frac * F(ras))
                exp = [(bi + 1, tg.slot_of(ev), field, 'RASTER')] if frac >= Fraction(1, 10 ** 5) else []
                return ('off %s.%s by %s raster' % (tg.slot_of(ev), field, float(frac)), exp)
        elif kind == 'other_raster':
            # the field lies on ANOTHER raster of the system (not a multiple of its own): a raster mix-up must show
            for ev in evs:
                fs = [f for f in raster_fields(ev, s) if f[0] not in ev['set']]
                rng.shuffle(fs)
                for attr, field, ras in fs:
                    others = [o for o in ('block', 'rf', 'grad', 'adc')
                              if Fraction(1, 10 ** 4) < (F(s[o]) / F(ras)) % 1 < 1 - Fraction(1, 10 ** 4)]
                    if not others:
                        continue
                    o = rng.choice(others)
                    ev['set'][attr] = float(F(cur_value(ev, attr, opts)) + F(s[o]))
                    return ('%s.%s moved by one %s raster' % (tg.slot_of(ev), field, o), [(bi + 1, tg.slot_of(ev), field, 'RASTER')])
        elif kind == 'dur_other_raster':
            dl = [e for e in blk['events'] if e['k'] == 'delay' and not e['set']]
            others = [o for o in ('rf', 'grad', 'adc')
                      if Fraction(1, 10 ** 4) < (F(s[o]) / F(s['block'])) % 1 < 1 - Fraction(1, 10 ** 4)]
            if not dl or not others:
                continue
            o = rng.choice(others)
            dl[0]['set']['delay'] = float(F(dl[0]['delay']) + 4 * F(s['block']) + F(s[o]))
            return ('block duration on the %s raster, not the block raster' % o, [(bi + 1, 'block', 'duration', 'RASTER')])
        elif kind == 'twin_off':
            # a later block made of exactly the same events as an earlier one, padded to another (off-raster) duration
            dl = [e for e in blk['events'] if e['k'] == 'delay']
            if not dl or any(e['set'] or e['alt'] for e in blk['events']) or blk.get('stored_delta') or blk.get('stored_abs'):
                continue
            twin = copy.deepcopy(blk)
            d = [e for e in twin['events'] if e['k'] == 'delay'][0]
            frac = rng.choice(FRACS[:4])
            d['set']['delay'] = float(F(d['delay']) + (frac + rng.choice([1, 7])) * F(s['block']))
            case['blocks'].append(twin)
            return ('twin of block %d with an off-raster duration' % (bi + 1), [(len(case['blocks']), 'block', 'duration', 'RASTER')])
        elif kind == 'adc_on_adc_raster':
            if F(s['adc']) * 2 > F(s['rf']):
                return None
            for ev in evs:
                if ev['k'] == 'adc' and 'delay' not in ev['set']:
                    k = rng.choice([1, 3])
                    ev['set']['delay'] = float(F(cur_value(ev, 'delay', opts)) + k * F(s['adc']))
                    return ('adc delay on the adc raster only', [(bi + 1, 'adc', 'delay', 'RASTER')])
        elif kind == 'neg':
            for ev in evs:
                if 'delay' in ev['set']:
                    continue
                ras = raster_fields(ev, s)[0][2]
                ev['set']['delay'] = float(-rng.choice([1, 2, 10]) * F(ras))
                return ('negative delay on %s' % tg.slot_of(ev), [(bi + 1, tg.slot_of(ev), 'delay', 'NEGATIVE_DELAY')])
        elif kind == 'dead_rf':
            if s['rf_dead'] <= 0:
                return None
            for ev in evs:
                if ev['k'] in ('rfb', 'rfs') and 'delay' not in ev['set']:
                    # raster-aligned delay below the dead time: by whole steps, or (dead time off the raster) by the
                    # fraction of a step that rounding the dead time DOWN loses
                    n = math.ceil(F(s['rf_dead']) / F(s['rf']) - Fraction(1, 10 ** 6))
                    ev['set']['delay'] = float((n - rng.choice([1, 1, rng.randint(1, n)])) * F(s['rf']))
                    return ('rf delay below dead time', [(bi + 1, 'rf', 'delay', 'RF_DEAD_TIME')])
        elif kind == 'dead_adc':
            if s['adc_dead'] <= 0:
                return None
            for ev in evs:
                if ev['k'] == 'adc' and 'delay' not in ev['set']:
                    n = math.ceil(F(s['adc_dead']) / F(s['rf']) - Fraction(1, 10 ** 6))
                    ev['set']['delay'] = float((n - rng.choice([1, 1, rng.randint(1, n)])) * F(s['rf']))
                    return ('adc delay below dead time', [(bi + 1, 'adc', 'delay', 'ADC_DEAD_TIME')])
        elif kind == 'alt':
            if not case.get('alt'):
                case['alt'] = tg.shorter_system(rng, s)
            a = case['alt']
            for ev in evs:
                if ev['k'] in ('rfb', 'rfs', 'adc') and not ev['alt'] and 'delay' not in ev['set']:
                    # rebuild the event for the other system: its delay follows that system's dead time
                    own = 'rf_dead' if ev['k'] != 'adc' else 'adc_dead'
                    rr = F(s['rf'])
                    extra = F(ev['delay']) - math.ceil(F(s[own]) / rr - Fraction(1, 10 ** 6)) * rr
                    ev['alt'] = True
                    ev['delay'] = float(math.ceil(F(a[own]) / rr - Fraction(1, 10 ** 6)) * rr + extra)
                    exp = []
                    if F(ev['delay']) < F(s[own]) - tg.EPS * 2:
                        exp.append((bi + 1, tg.slot_of(ev), 'delay', 'RF_DEAD_TIME' if ev['k'] != 'adc' else 'ADC_DEAD_TIME'))
                    return ('%s built for a system with shorter dead times' % tg.slot_of(ev), exp)
        elif kind in ('stored_cut', 'stored_long', 'stored_off'):
            if blk.get('stored_delta') is not None:
                continue
            br = F(s['block'])
            if kind == 'stored_long':
                blk['stored_delta'] = str(rng.choice([1, 2, 50]) * br)
                return ('stored duration extended', [])
            if kind == 'stored_off':
                blk['stored_delta'] = str(rng.choice([Fraction(37, 100), Fraction(1, 2), Fraction(1, 10 ** 4)]) * br)
                return ('stored duration off the block raster', [(bi + 1, 'block', 'duration', 'RASTER')])
            # cut below the content
            import pypulseq as pp
            built = [tg.build_event(e, opts, opts) for e in blk['events'] if e['k'] not in ('delay', 'label') and not e['set']
                     and not e['alt']]
            if not built:
                continue
            content = F(pp.calc_duration(*built))
            if content <= br:
                continue
            k = rng.choice([1, 1, 2, 5])
            target = (math.ceil(content / br - Fraction(1, 10 ** 6)) - k) * br
            if target < 0:
                continue
            blk['stored_abs'] = float(target)
            return ('stored duration cut below the content', [(bi + 1, 'block', 'duration', 'BLOCK_DURATION_MISMATCH')])
        elif kind == 'dur_off':
            dl = [e for e in blk['events'] if e['k'] == 'delay' and not e['set']]
            if not dl:
                continue
            ev = dl[0]
            frac = rng.choice(FRACS)
            ev['set']['delay'] = float(F(ev['delay']) + (frac + rng.choice([0, 3])) * F(s['block']))
            exp = [(bi + 1, 'block', 'duration', 'RASTER')] if frac >= Fraction(1, 10 ** 5) else []
            return ('block duration off raster by %s' % float(frac), exp)
    return None


def variant():
    """True when the source under test applies the block-raster test to the stored duration (repaired source).
    Taken from the translator when it succeeded, else read directly from the source text (the oracle must not fall back
    to the wrong reading when the translator fails closed on an unrelated edit)."""
    import translate
    if 'timing_raster_on_stored' in translate.CONSTS:
        return bool(translate.CONSTS['timing_raster_on_stored'])
    import re
    try:
        src = open(os.path.join(translate.PKG, 'check_timing.py')).read()
    except OSError:
        return True
    m = re.search(r"div_check\(\s*([^,]+),[^)]*?event='block'", src, flags=re.S)
    return bool(m) and 'block_durations' in m.group(1)


def gen_case(rng, stream, s=None):
    s = s or tg.gen_system(rng)
    opts = tg.make_opts(s)
    nb = rng.randint(1, 8)
    case = {'stream': stream, 'sys': s, 'alt': None,
            'blocks': [tg.gen_block(rng, s, opts, p_long=0.07, p_empty=0.05) for _ in range(nb)], 'faults': [], 'expected': []}
    # repeated blocks: same events, another (valid) padding — a later block must be judged on its own duration
    for _ in range(rng.choice([0, 0, 1, 2])):
        src = rng.choice(case['blocks'])
        twin = copy.deepcopy(src)
        dl = [e for e in twin['events'] if e['k'] == 'delay']
        if dl:
            dl[0]['delay'] = float(F(dl[0]['delay']) + rng.choice([0, 1, 5]) * F(s['block']))
        case['blocks'].append(twin)
    nf = {'valid': 0, 'fault1': 1, 'faultN': rng.randint(2, 4), 'alt': 1, 'many': rng.randint(2, 5)}[stream]
    tries = 0
    while len(case['faults']) < nf and tries < 12:
        tries += 1
        r = inject(rng, case, opts, kinds=['alt'] if stream == 'alt' and not case['faults'] else None)
        if r is not None:
            case['faults'].append(r[0])
            case['expected'] += [list(x) for x in r[1]]
    if stream == 'many':
        # long sequences with tens to hundreds of violations: the faulty blocks repeated
        reps = rng.choice([4, 8, 20, 40])
        case['blocks'] = [copy.deepcopy(b) for _ in range(reps) for b in case['blocks']][:160]
        case['faults'].append('blocks repeated %d times' % reps)
    return case


def build(case, use_cache=True):
    seq = tg.build_sequence(case, use_cache=use_cache)
    for i, b in enumerate(case['blocks']):
        new = None
        if b.get('stored_abs') is not None:
            new = float(b['stored_abs'])
        elif b.get('stored_delta') is not None:
            new = float(F(seq.block_durations[i + 1]) + Fraction(b['stored_delta']))
        if new is not None:
            seq.block_durations[i + 1] = new
            seq.block_cache.pop(i + 1, None)
    return seq


def write_outcome(seq):
    """(exception name or None, [timing warnings])"""
    with tempfile.TemporaryDirectory(prefix='pvC10') as d:
        with warnings.catch_warnings(record=True) as w:
            warnings.simplefilter('always')
            exc = None
            try:
                seq.write(os.path.join(d, 'a.seq'), create_signature=False)
            except Exception as e:  # noqa: BLE001
                exc = type(e).__name__ + ': ' + str(e)[:80]
        tw = [str(x.message) for x in w if 'timing' in str(x.message).lower()]
    return exc, tw


def option_variants(seq, ok, irep):
    """every public option of Sequence.check_timing must give the same (ok, report): print_errors=True only prints"""
    import contextlib
    import io
    buf = io.StringIO()
    with contextlib.redirect_stdout(buf):
        ok2, rep2 = seq.check_timing(print_errors=True)
    ok3, rep3 = seq.check_timing(print_errors=False)
    r2, r3 = tg.norm_report(rep2), tg.norm_report(rep3)
    if ok2 != ok or r2 != irep:
        return {'option': 'print_errors=True', 'n_default': len(irep), 'n_option': len(r2), 'ok': [ok, ok2]}
    if ok3 != ok or r3 != irep:
        return {'option': 'print_errors=False after a printing call', 'n_default': len(irep), 'n_option': len(r3), 'ok': [ok, ok3]}
    if irep and not buf.getvalue():
        return {'option': 'print_errors=True printed nothing', 'n_default': len(irep)}
    return None


def evaluate(ctx, case, collect=None):
    """run implementation + oracle on one case; returns the data needed for the model comparison (or None)"""
    import pypulseq as pp
    try:
        seq = build(case)
    except Exception as e:  # noqa: BLE001
        # set_block / makers may legitimately reject a perturbed event; a valid case must build
        if case['stream'] == 'valid':
            ctx.fail('C10/valid-does-not-build', case, {'exception': repr(e)})
        ctx.count('build.raises')
        return None
    try:
        ok, report = seq.check_timing()
    except Exception as e:  # noqa: BLE001
        ctx.fail('C10/check_timing-raises', case, {'exception': repr(e)})
        return None
    irep = tg.norm_report(report)
    s = tg.sys_fr(seq)
    ds = [tg.decode(seq, bid) for bid in seq.block_events]
    orep, near = tg.oracle_report(s, ds, variant())
    detail = None
    sig = None
    if ok != (len(report) == 0):
        sig, detail = 'C10/ok-flag', {'ok': ok, 'n': len(report)}
    # injected faults must be named
    # (only for single faults: several faults may cancel or mask each other; those cases rely on the exact oracle)
    missing = [tuple(x) for x in case['expected'] if tuple(x) not in irep] if len(case['faults']) == 1 else []
    if sig is None and missing:
        sig, detail = 'C10/missed/' + missing[0][3] + '/' + missing[0][1] + '.' + missing[0][2], {
            'missing': missing, 'report': irep, 'faults': case['faults']}
    if sig is None and case['stream'] == 'valid' and irep:
        sig, detail = 'C10/false-positive/' + irep[0][3] + '/' + irep[0][1] + '.' + irep[0][2], {'report': irep}
    if sig is None and not near and sorted(irep) != sorted(orep):
        extra = sorted(set(irep) - set(orep))
        lack = sorted(set(orep) - set(irep))
        one = (extra or lack or [irep[0]])[0]
        sig = 'C10/%s/%s/%s.%s' % ('spurious' if extra else 'unreported' if lack else 'duplicate', one[3], one[1], one[2])
        detail = {'reported_not_violated': extra, 'violated_not_reported': lack, 'report': irep, 'faults': case['faults']}
    if sig is None:
        # property-text reading of "RF end plus ring-down fits" (shape_dur): a violation must make the report non-empty
        for d in ds:
            r = d['rf']
            if r is not None and r['delay'] + r['shape_dur'] + r['ringdown_time'] > d['stored'] + tg.EPS + Fraction(1, 10 ** 12):
                if not any(x[0] == d['id'] for x in irep):
                    sig, detail = 'C10/ringdown-unreported', {'block': d['id']}
    if sig is None:
        od = option_variants(seq, ok, irep)
        if od:
            sig, detail = 'C10/option-changes-result/' + od['option'].split(' ')[0], od
    wrote = None
    if sig is None and ok:
        exc, tw = write_outcome(seq)
        wrote = (exc, tw)
        if exc or tw:
            sig, detail = 'C10/ok-but-write-' + ('raises' if exc else 'warns'), {'exception': exc, 'warnings': tw}
        ctx.count('write.checked')
    if sig:
        ctx.fail(sig, case, detail)
    for x in irep:
        ctx.count('kind.' + x[3])
        ctx.count('field.%s.%s' % (x[1].replace('gy', 'g*').replace('gz', 'g*').replace('gx', 'g*'), x[2]))
    ctx.count('report.%s' % ('empty' if not irep else '1' if len(irep) == 1 else '2-3' if len(irep) <= 3 else '4-10' if len(irep) <= 10
                             else '11-100' if len(irep) <= 100 else '>100'))
    ctx.count('stream.' + case['stream'])
    ctx.count('family.' + case['sys']['family'])
    if near:
        ctx.count('near_threshold')
    kinds = {e['k'] for b in case['blocks'] for e in b['events']}
    ctx.evaluated(('c10', repr(case['blocks']), repr(case['sys']), repr(case.get('alt'))), nontrivial=bool(irep) or len(kinds) >= 3)
    cd = [F(pp.calc_duration(seq.get_block(bid))) for bid in seq.block_events]
    return {'sys': s, 'ds': ds, 'irep': irep, 'near': near, 'calc': cd, 'ok': ok, 'seq': seq, 'sig': sig}


# ------------------------------------------------------------------------------------------------
# object histories: check_timing is a function of the object's CURRENT content, whatever happened to the object before
def gen_history(rng):
    s = tg.gen_system(rng)
    first = gen_case(rng, rng.choice(['valid', 'valid', 'fault1']), s)
    other = gen_case(rng, rng.choice(['fault1', 'fault1', 'valid', 'alt']), s)       # content of the file that gets loaded
    pool = gen_case(rng, rng.choice(['fault1', 'faultN', 'valid']), s)
    longer = dict(s)
    rr = F(s['rf'])
    for k in ('rf_dead', 'adc_dead', 'rf_ring'):
        longer[k] = float(F(s[k]) + rng.choice([0, 10, 40]) * rr)
    steps = []
    for _ in range(rng.randint(2, 5)):
        k = rng.choice(['add', 'set', 'read', 'read', 'dedup', 'system', 'check', 'redur', 'redur'])
        if k == 'redur':
            steps.append([k, rng.randint(0, 10 ** 6), rng.choice([0, 0, 1, 2, 5])])
        elif k == 'read':
            steps.append([k, {'remove_duplicates': rng.random() < 0.5, 'detect_rf_use': rng.random() < 0.4}])
        elif k in ('add', 'set'):
            steps.append([k, rng.randint(0, 10 ** 6), copy.deepcopy(rng.choice(pool['blocks']))])
        elif k == 'system':
            steps.append([k, rng.choice([longer, tg.shorter_system(rng, s), s])])
        else:
            steps.append([k])
    return {'stream': 'history', 'sys': s, 'alt': None, 'faults': [], 'expected': [], 'blocks': first['blocks'],
            'first': first, 'other': other, 'pool_alt': pool.get('alt'), 'steps': steps, 'cache': rng.random() < 0.7}


def judge(ctx, case, seq, label):
    """check_timing of the object as it is now against the oracle for its current content"""
    import pypulseq as pp
    try:
        ok, report = seq.check_timing()
    except Exception as e:  # noqa: BLE001
        ctx.fail('C10/history/check_timing-raises', case, {'after': label, 'exception': repr(e)})
        return None
    irep = tg.norm_report(report)
    s = tg.sys_fr(seq)
    ds = [tg.decode(seq, bid) for bid in seq.block_events]
    orep, near = tg.oracle_report(s, ds, variant())
    sig = None
    if ok != (len(report) == 0):
        sig = 'C10/history/ok-flag'
        ctx.fail(sig, case, {'after': label, 'ok': ok, 'n': len(report)})
    elif not near and sorted(irep) != sorted(orep):
        extra = sorted(set(irep) - set(orep))
        lack = sorted(set(orep) - set(irep))
        sig = 'C10/history/%s-after-%s' % ('stale-or-spurious' if extra else 'unreported', label.split(':')[0])
        ctx.fail(sig, case, {'after': label, 'reported_not_violated': extra[:6], 'violated_not_reported': lack[:6], 'report': irep[:8]})
    ctx.count('history.check_after.' + label.split(':')[0])
    ctx.count('history.report.' + ('empty' if not irep else 'errors'))
    cd = [F(pp.calc_duration(seq.get_block(bid))) for bid in seq.block_events]
    return {'sys': s, 'ds': ds, 'irep': irep, 'near': near, 'calc': cd, 'ok': ok, 'seq': seq, 'sig': sig}


def evaluate_history(ctx, case):
    import pypulseq as pp
    items = []
    try:
        seq = build(case['first'], use_cache=case.get('cache', True))
    except Exception:  # noqa: BLE001
        ctx.count('history.build_raises')
        return items
    opts = tg.make_opts(case['sys'])
    alt = tg.make_opts(case['pool_alt']) if case.get('pool_alt') else opts
    it = judge(ctx, case, seq, 'build')
    if it:
        items.append(it)
    for n, st in enumerate(case['steps']):
        k = st[0]
        label = '%s:%d' % (k, n)
        try:
            with warnings.catch_warnings():
                warnings.simplefilter('ignore')
                if k == 'add':
                    seq.add_block(*[tg.build_event(e, opts, alt) for e in st[2]['events']])
                elif k == 'set':
                    ids = list(seq.block_events)
                    seq.set_block(ids[st[1] % len(ids)], *[tg.build_event(e, opts, alt) for e in st[2]['events']])
                elif k == 'read':
                    src = build(case['other'])
                    with tempfile.TemporaryDirectory(prefix='pvC10h') as d:
                        fn = os.path.join(d, 'o.seq')
                        src.write(fn, create_signature=False)
                        ropt = st[1] if len(st) > 1 else {}
                        seq.read(fn, **ropt)
                        # a fresh object that reads the same file with the same options is the reference
                        fresh = pp.Sequence(seq.system, use_block_cache=case.get('cache', True))
                        fresh.read(fn, **ropt)
                        fresh_rep = (fresh.check_timing()[0], tg.norm_report(fresh.check_timing()[1]))
                elif k == 'redur':
                    # an already decoded block is overwritten with the SAME events (handed over by their library ids) and
                    # another explicit delay: only the stored duration changes (shorter or longer)
                    ids = list(seq.block_events)
                    bid = ids[st[1] % len(ids)]
                    row = seq.block_events[bid]
                    old = seq.block_durations[bid]
                    blk = seq.get_block(bid)
                    evs = []
                    for name, col in (('rf', 1), ('gx', 2), ('gy', 3), ('gz', 4), ('adc', 5)):
                        e = getattr(blk, name)
                        if e is not None:
                            e2 = copy.copy(e)
                            e2.id = int(row[col])
                            evs.append(e2)
                    content = max([pp.calc_duration(e) for e in evs] + [0.0])
                    br = seq.system.block_duration_raster
                    newd = (max(1, math.ceil(content / br - 1e-6)) + st[2]) * br
                    if abs(newd - old) < br / 2:
                        newd += br
                    seq.set_block(bid, *evs, pp.make_delay(newd))
                elif k == 'dedup':
                    seq.remove_duplicates(in_place=True)
                elif k == 'system':
                    seq.system = tg.make_opts(st[1])
                    seq.block_cache.clear()      # decoded RF events carry the dead / ring-down times of the system
        except Exception as e:  # noqa: BLE001
            # a rejected block (set_block checks) or an unwritable source file leaves the object as it was
            ctx.count('history.step_raises.' + k + '.' + type(e).__name__)
            continue
        it = judge(ctx, case, seq, label)
        if it and k == 'read' and it['sig'] is None and (it['ok'], it['irep']) != fresh_rep:
            it['sig'] = 'C10/history/used-object-differs-from-fresh-object-after-read'
            ctx.fail(it['sig'], case, {'after': label, 'options': st[1] if len(st) > 1 else {}, 'cache': case.get('cache', True),
                                       'used': it['irep'][:8], 'fresh': fresh_rep[1][:8]})
        if it:
            items.append(it)
            if it['sig']:
                break
    ctx.evaluated(('c10h', repr(case['steps']), repr(case['first']['blocks'])), nontrivial=True)
    ctx.count('stream.history')
    return items


def compare_model(ctx, items):
    lines = ['timing.check %s %s' % (tg.sys_tok(it['sys']), tg.blocks_tok(it['ds'])) for _, it in items]
    outs = ctx.model(lines)
    for (case, it), o in zip(items, outs):
        parts = o.split('|')
        if len(parts) != 3:
            ctx.mismatch('check', case, {'model': o[:300]})
            continue
        mrep = tg.model_report(parts[0])
        if it['near']:
            ctx.count('corr.near_skipped')
            continue
        if mrep != it['irep']:
            ctx.mismatch('check', case, {'model': mrep, 'impl': it['irep'], 'faults': case['faults']})
            continue
        from common import Toks
        t = Toks(parts[2])
        md = t.list(t.q)
        for a, b in zip(md, it['calc']):
            if abs(a - b) > Fraction(1, 10 ** 12) + abs(b) * Fraction(1, 10 ** 9):
                ctx.mismatch('calc_duration', case, {'model': float(a), 'impl': float(b)})
                break
        # write-time assertion: when the model says a stored duration fails it, write() must raise (and vice versa)
        t = Toks(parts[1])
        flags = t.list(t.bool)
        if case['stream'] != 'valid' and any('stored duration off' in f or 'block duration off' in f for f in case['faults']):
            devs = [abs(d['stored'] / it['sys']['block'] - round(d['stored'] / it['sys']['block'])) for d in it['ds']]
            if all(abs(dv - tg.TOL) > Fraction(1, 10 ** 8) for dv in devs):
                exc, _ = write_outcome(it['seq'])
                ctx.count('write.assert_compared')
                if (exc is not None and exc.startswith('AssertionError')) != (not all(flags)):
                    ctx.mismatch('write_assert', case, {'model_flags': flags, 'impl_exception': exc})


def compare_rf_decode(ctx, items):
    """model of rf_from_lib_data's time axis (decode_rf_tlast / decode_rf_shape_dur) against the decoded RF events"""
    from common import Toks, qtok, ztok
    lines, refs = [], []
    for case, it in items:
        for d in it['ds']:
            r = d['rf']
            if r is None or not r.get('time_shape'):
                continue
            kind, v = r['time_shape']
            lines.append('timing.rfdecode %s %s' % (qtok(it['sys']['rf']), ('1 ' + ztok(v)) if kind == 'regular' else ('0 ' + qtok(v))))
            refs.append((case, r))
    if not lines:
        return
    for (case, r), o in zip(refs, ctx.model(lines)):
        t = Toks(o)
        tl, sd = t.q(), t.q()
        ctx.count('corr.rf_decode.' + r['time_shape'][0])
        if abs(tl - r['t_last']) > Fraction(1, 10 ** 12) or abs(sd - r['shape_dur']) > Fraction(1, 10 ** 12):
            ctx.mismatch('rf_decode', case, {'model': [float(tl), float(sd)], 'impl': [float(r['t_last']), float(r['shape_dur'])]})
        if r['t_last'] > r['shape_dur'] + tg.EPS:
            ctx.fail('C10/decoded-rf-tlast-beyond-shape_dur', case, {'t_last': float(r['t_last']), 'shape_dur': float(r['shape_dur'])})


def corpus():
    s = {'family': 'siemens', 'block': 1e-5, 'rf': 1e-6, 'grad': 1e-5, 'adc': 1e-7, 'rf_dead': 1e-4, 'rf_ring': 3e-5, 'adc_dead': 2e-5}
    z = dict(s, rf_dead=0.0, rf_ring=0.0, adc_dead=0.0)
    rf = {'k': 'rfb', 'dur': 1e-3, 'delay': 1e-4, 'flip': 0.5, 'use': '', 'alt': False, 'set': {}}
    trap = {'k': 'trap', 'ch': 'x', 'amp': 1e4, 'rise': 1e-4, 'flat': 6.4e-4, 'fall': 1e-4, 'delay': 0.0, 'alt': False, 'set': {}}
    adc = {'k': 'adc', 'n': 64, 'dwell': 1e-5, 'delay': 1e-4, 'alt': False, 'set': {}}
    cs = []
    cs.append({'stream': 'valid', 'sys': s, 'alt': None, 'faults': [], 'expected': [],
               'blocks': [{'events': [copy.deepcopy(rf)]}, {'events': [copy.deepcopy(trap), copy.deepcopy(adc)]}]})
    rf2 = copy.deepcopy(rf)
    rf2['alt'] = True
    rf2['delay'] = 0.0
    adc2 = copy.deepcopy(adc)
    adc2['alt'] = True
    adc2['delay'] = 0.0
    cs.append({'stream': 'alt', 'sys': s, 'alt': z, 'faults': ['corpus: events of the zero-dead-time system'],
               'expected': [[1, 'rf', 'delay', 'RF_DEAD_TIME'], [1, 'block', 'duration', 'BLOCK_DURATION_MISMATCH'],
                            [1, 'rf', 'duration', 'RF_RINGDOWN_TIME'], [2, 'adc', 'delay', 'ADC_DEAD_TIME']],
               'blocks': [{'events': [rf2]}, {'events': [copy.deepcopy(trap), adc2]}]})
    t3 = copy.deepcopy(trap)
    t3['set'] = {'rise_time': 1.23e-4}
    a3 = copy.deepcopy(adc)
    a3['set'] = {'dwell': 1.00005e-5, 'delay': 1.001e-4}
    cs.append({'stream': 'faultN', 'sys': s, 'alt': None, 'faults': ['corpus: rise, dwell, adc delay'],
               'expected': [[1, 'gx', 'rise_time', 'RASTER'], [1, 'adc', 'dwell', 'RASTER'], [1, 'adc', 'delay', 'RASTER']],
               'blocks': [{'events': [t3, a3]}]})
    # post-ADC dead time: ADC of the zero-dead-time system is the last thing in the block
    a4 = copy.deepcopy(adc)
    a4['alt'] = True
    a4['n'] = 100
    cs.append({'stream': 'alt', 'sys': s, 'alt': dict(s, adc_dead=0.0), 'faults': ['corpus: post-adc'],
               'expected': [[1, 'adc', 'duration', 'POST_ADC_DEAD_TIME']], 'blocks': [{'events': [a4]}]})
    # known finding C10/ok-but-write-raises: an attribute that is not raster-checked (rf.shape_dur, recomputed by
    # get_block) 0.5 ns short: the stored duration is 0.5 ns below the on-raster content; the mismatch test tolerates
    # eps = 1 ns, the writer's assertion only 1e-6 raster
    rf5 = copy.deepcopy(rf)
    rf5['set'] = {'shape_dur': 1e-3 - 5e-10}
    cs.append({'stream': 'fault1', 'sys': s, 'alt': None, 'faults': ['corpus: rf.shape_dur 0.5 ns short'], 'expected': [],
               'blocks': [{'events': [rf5]}]})
    return cs


def run(ctx):
    import pypulseq as pp
    if Fraction(repr(float(pp.eps))) != tg.EPS:
        ctx.fail('C10/eps-changed', {'eps': float(pp.eps)}, {'expected': float(tg.EPS)})
    n = {'quick': 1100, 'thorough': 40000}[ctx.tier]
    # (first: an escalated run must not spend its whole time box on the single-shot cases)
    # object histories
    hr = ctx.rng('histories')
    pending = []
    for i in range({'quick': 110, 'thorough': 1500}[ctx.tier]):
        if ctx.out_of_time():
            ctx.notes.append('time budget reached after %d histories' % i)
            break
        case = gen_history(hr)
        for it in evaluate_history(ctx, case):
            if ctx.model_available and it['sig'] is None:
                pending.append((case, it))
        if i == 3:
            ctx.sample({'stream': 'history', 'steps': [st[0] for st in case['steps']]})
    if pending and ctx.model_available:
        compare_model(ctx, pending)
    rng = ctx.rng('sequences')
    streams = ['valid'] * 6 + ['fault1'] * 8 + ['faultN'] * 4 + ['alt'] * 2 + ['many']
    import itertools
    cases = itertools.chain(corpus(), (gen_case(rng, streams[i % len(streams)]) for i in range(n)))     # lazily: time-boxed runs
    pending = []
    for i, case in enumerate(cases):
        if ctx.out_of_time():
            ctx.notes.append('time budget reached after %d cases' % i)
            break
        it = evaluate(ctx, case)
        if it is None:
            continue
        if i % 300 == 1:
            ctx.sample({'stream': case['stream'], 'family': case['sys']['family'], 'faults': case['faults'],
                        'blocks': len(case['blocks']), 'report': it['irep'][:6]})
        if ctx.model_available and it['sig'] is None:
            pending.append((case, it))
        if len(pending) >= 200:
            compare_model(ctx, pending)
            compare_rf_decode(ctx, pending)
            pending = []
    if pending and ctx.model_available:
        compare_model(ctx, pending)
        compare_rf_decode(ctx, pending)


def replay(ctx, case):
    if case.get('stream') == 'history':
        items = evaluate_history(ctx, case)
        if ctx.model_available:
            compare_model(ctx, [(case, it) for it in items if it['sig'] is None])
        return {'steps': [st[0] for st in case['steps']], 'reports': [it['irep'][:6] for it in items]}
    it = evaluate(ctx, case)
    if it is None:
        return {'note': 'case does not build'}
    if ctx.model_available:
        compare_model(ctx, [(case, it)])
    orep, near = tg.oracle_report(it['sys'], it['ds'], variant())
    return {'ok': it['ok'], 'reported': it['irep'], 'oracle': orep, 'near_threshold': near, 'faults': case.get('faults')}
