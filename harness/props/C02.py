"""C02 — serialisation is deterministic, side-effect free and a fixed point."""
import json
import os
import tempfile
import time
from types import SimpleNamespace

import numpy as np

import common
import filegen
import filemodel

ID = 'C02'
GEN_SECTIONS = ['GenFile', 'GenDedup', 'GenDefs', 'FP_file_io', 'FP_dedup', 'FP_definitions']
COQ_TARGETS = ['Props/C02.vo']
EXTRACT_TARGETS = ['Extract/Ex_file.vo']
RUNNER = 'file'
LEVEL = 'proof'
MANIFEST = {
    'text': "Theorems (Coq, over the column tables and dedup digit tuples regenerated from the source on every run; all rationals, "
            "all rows, all libraries): printing is idempotent through the reader for every column format "
            "(fmt(read(fmt x)) = fmt x), hence write_rows(read_rows(write_rows s)) = write_rows s for every library state "
            "(row level and library level by induction; the RF-delay column under the stated on-raster hypothesis); duplicate "
            "removal's rounding identifies two values only if they print identically, column by column (integer columns for all "
            "rationals, 6-digit columns for regular values), with kernel-checked witnesses where it fails (KF-5 RF delay, KF-15 "
            "unstored first/last). On the implementation: write twice -> byte-identical files (signature included); "
            "write, read (independent reader system), write -> byte-identical; get_block of every block and all libraries "
            "unchanged by write (cache on and off); the extracted model re-derives the second file from the tokens of the first.",
    'note': 'Trusted: Coq kernel; translator patterns; text rendering of decimals (a function of the exact decimal value, sampled); '
            'deepcopy/aliasing behaviour of write() is checked by snapshots, not by theorem; hashlib.md5.',
    'technique': 'Rocq/Coq proof over generated format/digit tables (idempotence of decimal rounding, induction over rows) + '
                 'byte-level oracle + extraction-based correspondence on real files',
}
BUDGET = {'quick': 80, 'thorough': 1500}
MISMATCH_BUDGET = 0.0
ESCALATE_BUDGET = 120
SEARCH_BUDGET = 120
RULE = ('same generator as C01 (all event kinds, connected arbitrary gradients, independent writer/reader systems, block cache on '
        'or off). Oracle: write twice -> identical bytes incl. [SIGNATURE]; snapshot of get_block(i) for all i and of every '
        'library (data, type, keymap, next id), block table and durations before == after write; write, read with another system, '
        'write -> identical bytes. Correspondence: tokens of file 1 -> model write_rows(read_rows(.)) == tokens of the file the '
        'implementation wrote after reading. distinct = distinct file texts; non-trivial = files with shapes')
TRUSTED = ['text rendering of a decimal is a function of its exact value (str.format): sampled',
           'deepcopy / aliasing (write works on a copy) is runtime behaviour: checked by snapshots on every case']
ASSUMPTIONS = ['KF-15 inputs are excluded by construction of the generator: no two events that differ only in fields the format '
               'does not store (same arbitrary waveform with different first/last, ADCs with different dead times); theorem '
               'edge_twins_refuted gives the witness',
               'RF delays below 1 s (KF-5) so that the printed delay is on the RF raster (hypothesis of the RF-delay column)',
               'sequences pass check_timing (others skipped and counted)']


def snap(x):
    """hashable deep snapshot with exact float identity"""
    if isinstance(x, SimpleNamespace):
        return ('ns',) + tuple((k, snap(v)) for k, v in sorted(vars(x).items()) if k != 'trace')
    if isinstance(x, dict):
        return ('dict',) + tuple((snap(k), snap(v)) for k, v in x.items())
    if isinstance(x, (list, tuple)):
        return ('seq',) + tuple(snap(v) for v in x)
    if isinstance(x, np.ndarray):
        return ('arr', str(x.dtype), x.shape, x.tobytes())
    if isinstance(x, (float, np.floating)):
        return ('f', float(x).hex())
    if isinstance(x, (complex, np.complexfloating)):
        return ('c', float(x.real).hex(), float(x.imag).hex())
    if isinstance(x, (int, np.integer)):
        return ('i', int(x))
    if isinstance(x, bytes):
        return ('b', x)
    if x is None or isinstance(x, (str, bool)):
        return x
    return ('repr', repr(x))


LIBS = ['rf_library', 'grad_library', 'adc_library', 'shape_library', 'trigger_library', 'label_set_library',
        'label_inc_library', 'extensions_library']


def lib_snapshot(seq):
    out = {}
    for nm in LIBS:
        lib = getattr(seq, nm)
        out[nm] = snap({'data': lib.data, 'type': lib.type, 'keymap': lib.keymap, 'next': lib.next_free_ID})
    out['block_events'] = snap({int(k): np.asarray(v) for k, v in seq.block_events.items()})
    out['block_durations'] = snap(dict(seq.block_durations))
    out['ext'] = snap([list(seq.extension_numeric_idx), list(seq.extension_string_idx)])
    out['rasters'] = snap([seq.grad_raster_time, seq.rf_raster_time, seq.adc_raster_time, seq.block_duration_raster])
    return out


def block_snapshot(seq):
    return {int(b): snap(seq.get_block(b)) for b in seq.block_events}


def first_diff(a, b):
    for k in a:
        if a[k] != b.get(k):
            return k
    for k in b:
        if k not in a:
            return k
    return None


def one_case(ctx, index, want_model=True):
    import pypulseq as pp
    rng = ctx.rng('seq%d' % index)
    cache = rng.random() < 0.5
    system = filegen.rand_system(rng)
    # some files lack whole sections (no labels/triggers -> no extension sections; trapezoids/ADC/delays only -> no shapes)
    u = rng.random()
    kinds = dict(labels=False) if u < 0.15 else dict(labels=False, arb=False, rf=False) if u < 0.3 else {}
    seq, nb, sysw = filegen.random_sequence(rng, system=system, use_block_cache=cache, history=True, **kinds)
    ctx.count('content.' + ('all_kinds' if not kinds else 'no_extensions' if len(kinds) == 1 else 'trap_adc_delay_only'))
    ctx.count('rf.same_pulse_two_uses', getattr(seq, '_gen_use_pairs', 0))
    sysr = filegen.rand_system(rng, default_prob=0.3)
    if nb == 0:
        ctx.count('skipped.empty')
        return None
    ok, _ = seq.check_timing()
    if not ok:
        ctx.count('skipped.check_timing')
        return None
    # the options of write(): none of them may change the content (remove_duplicates stays on: the property's default)
    sig = rng.random() < 0.8
    ct1 = rng.random() < 0.5
    o1 = dict(create_signature=sig, check_timing=ct1)
    o2 = dict(create_signature=sig, check_timing=not ct1)
    if rng.random() < 0.3:
        o1['remove_duplicates'] = True
    hist = getattr(seq, '_gen_history', None)
    case = {'index': index, 'blocks': nb, 'cache': cache, 'write1': o1, 'write2': o2, 'history': hist,
            'midwrite': bool(getattr(seq, '_gen_midwrite', False))}
    if hist:
        ctx.count('history.out_of_order' if hist['out_of_order'] else 'history.noncontiguous' if hist['noncontiguous'] else 'history.plain')
    if case['midwrite']:
        ctx.count('history.written_before_complete')
    ctx.count('write1.check_timing_%s' % ct1)
    ctx.count('write.signature_%s' % sig)
    blocks0 = block_snapshot(seq)
    libs0 = lib_snapshot(seq)
    with tempfile.TemporaryDirectory(prefix='pvC02') as d:
        f1, f2, f3 = (os.path.join(d, n) for n in ('a.seq', 'b.seq', 'c.seq'))
        try:
            h1 = seq.write(f1, **o1)
        except AssertionError:
            ctx.count('skipped.write_assertion')
            return None
        libs1 = lib_snapshot(seq)
        try:
            blocks1 = block_snapshot(seq)
            h2 = seq.write(f2, **o2)
            d1, d2 = open(f1, 'rb').read(), open(f2, 'rb').read()
            used = rng.random() < 0.5
            s2 = filegen.used_reader(rng, sysr, d) if used else pp.Sequence(sysr, use_block_cache=rng.random() < 0.5)
            ctx.count('reader.' + ('with_prior_content' if used else 'fresh'))
            s2.read(f1)
            s2.write(f3, create_signature=sig)
            d3 = open(f3, 'rb').read()
        except Exception as e:  # noqa: BLE001
            k = first_diff(libs0, libs1)
            ctx.evaluated(('raises', index))
            ctx.fail('C02/raises-after-write' if k is None else 'C02/state-changed-by-write', case,
                     {'exception': repr(e), 'state_changed': k})
            return None
    text = d1.decode()
    ctx.evaluated(common.stable_hash(text), nontrivial=len(seq.shape_library.data) > 0)
    ctx.count('cache.' + ('on' if cache else 'off'))
    ctx.count('blocks.%s' % ('1-3' if nb <= 3 else '4-8' if nb <= 8 else '9+'))
    ctx.count('events.grad', len(seq.grad_library.data))
    ctx.count('events.rf', len(seq.rf_library.data))
    ok = True
    if d1 != d2 or h1 != h2:
        ok = False
        l1, l2 = d1.decode(errors='replace').split('\n'), d2.decode(errors='replace').split('\n')
        j = next((i for i in range(min(len(l1), len(l2))) if l1[i] != l2[i]), min(len(l1), len(l2)))
        ctx.fail('C02/write-twice-differs', case, {'line': j, 'first': l1[j] if j < len(l1) else None,
                                                  'second': l2[j] if j < len(l2) else None, 'len1': len(d1), 'len2': len(d2)})
    k = first_diff(blocks0, blocks1)
    if k is not None:
        ok = False
        ctx.fail('C02/get_block-changed-by-write', case, {'block': k})
    k = first_diff(libs0, libs1)
    if k is not None:
        ok = False
        ctx.fail('C02/state-changed-by-write', case, {'what': k})
    if d3 != d1:
        ok = False
        l1, l3 = d1.decode().split('\n'), d3.decode().split('\n')
        j = next((i for i in range(min(len(l1), len(l3))) if l1[i] != l3[i]), min(len(l1), len(l3)))
        ctx.fail('C02/write-read-write-differs', case, {'line': j, 'first': l1[j] if j < len(l1) else None,
                                                       'rewritten': l3[j] if j < len(l3) else None,
                                                       'lines1': len(l1), 'lines3': len(l3)})
    if index % 40 == 0:
        ctx.sample({'case': case, 'bytes': len(d1), 'hash': h1, 'oracle_ok': ok})
    if not (ok and want_model and ctx.model_available):
        return None
    try:
        tok1 = filemodel.tokenize(text)
        tok3 = filemodel.tokenize(d3.decode())
    except filemodel.TokenizeError as e:
        ctx.mismatch('tokenize', case, {'error': str(e)})
        return None
    return {'case': case, 'tok1': tok1, 'tok3': tok3, 'sysr': sysr}


# ---- user definitions ------------------------------------------------------------------------------------------------
# Baseline established on the unchanged tree (round 3): these values go through write -> read -> write unchanged ...
DEF_FIXED_OK = [5, -5, 0, 123456789, 1234567890, 123456789012, -98765432101, 2 ** 53 + 1, True, 0.1, 1 / 3, 1e-9, 1e300, 5.0,
                1234567890.0, 123456789.5, -0.0, float('nan'), float('inf'), [1, 2, 3], (0.25, 0.25, 0.003), [1234567890123, 2],
                [], [5.0], 'abc', 'a b', 'a  b', 'TE  4.2 ms   TR  18 ms', 'a\tb', '1abc', '123', 'nan', 'inf', '1 2 3', '1  2',
                '1e-05', '0x10', '\u00e9pi s\u00e9q \u00fc', '\u65e5\u672c', 'a#b', '#hash', 'x = 3', ['a', 'b'], ['a', 1], 'True']
# ... and these classes do not (each a genuine deviation from "read a written file, write it again: byte-identical"):
DEF_KNOWN = {
    'C02/definition-string-edge-whitespace': ' lead note\t',     # white space at either end is stripped by read()
    'C02/definition-empty-string': '',                            # read back as an empty array: one blank less on rewrite
    'C02/definition-numeric-looking-string': '1e5',               # every token parses as a float: rewritten as 100000
    'C02/definition-string-line-break': 'a\nb',                   # the text after the line break becomes another line
}
# printed with str() instead of 9 significant digits (repair: /tmp/c01c02_fix2.patch)
DEF_NUMPY_SIG = 'C02/definition-numpy-number-not-9g'


def defs_roundtrip(defs, sysr=None):
    """(ok, detail, texts) for a one-block sequence carrying `defs` (list of (key, value))"""
    import pypulseq as pp
    seq = pp.Sequence(pp.Opts())
    seq.add_block(pp.make_delay(1e-3))
    for k, v in defs:
        seq.set_definition(k, v)
    with tempfile.TemporaryDirectory(prefix='pvC02') as d:
        f1, f2, f3 = (os.path.join(d, n) for n in ('a.seq', 'b.seq', 'c.seq'))
        try:
            seq.write(f1, create_signature=True)
            seq.write(f2, create_signature=True)
            d1, d2 = open(f1, 'rb').read(), open(f2, 'rb').read()
            s2 = pp.Sequence(sysr) if sysr is not None else pp.Sequence()
            s2.read(f1)
            s2.write(f3, create_signature=True)
            d3 = open(f3, 'rb').read()
        except Exception as e:  # noqa: BLE001
            return False, {'exception': repr(e)}, None
    if d1 != d2:
        return False, {'what': 'write twice differs'}, None
    if d1 != d3:
        l1, l3 = d1.decode(errors='replace').split('\n'), d3.decode(errors='replace').split('\n')
        j = next((i for i in range(min(len(l1), len(l3))) if l1[i] != l3[i]), min(len(l1), len(l3)))
        return False, {'line': j, 'first': l1[j] if j < len(l1) else None, 'rewritten': l3[j] if j < len(l3) else None}, None
    return True, {}, (d1.decode(errors='replace'), d3.decode(errors='replace'))


def defs_stream(ctx, want_model=True):
    known = {k['signature'] for k in common.load_known() if k.get('property') == ID and k.get('status') == 'known'}
    # fixed corpus: must round-trip
    for i, v in enumerate(DEF_FIXED_OK):
        ok, detail, _ = defs_roundtrip([('K', v)])
        ctx.evaluated(('def-fixed', i))
        ctx.count('defs.fixed')
        if not ok:
            ctx.fail('C02/definitions-write-read-write-differs', {'kind': 'def-fixed', 'index': i, 'value': repr(v)}, detail)
    # one reproducer per known class
    for sig, v in DEF_KNOWN.items():
        ok, detail, _ = defs_roundtrip([('K', v)])
        ctx.count('defs.known.%s' % ('fixed-now' if ok else 'reproduced'))
        if not ok:
            if sig in known:
                ctx.fail(sig, {'kind': 'def-known', 'signature': sig, 'value': repr(v)}, detail)
            else:
                ctx.notes.append('%s reproduced (value %r: %s); not listed in known_findings.json, recorded here only'
                                 % (sig, v, json.dumps(detail, default=str)[:160]))
    import numpy as np
    for v in (np.array([1234567890123, 5]), np.array([1 / 3], dtype=np.float32)):
        ok, detail, _ = defs_roundtrip([('K', v)])
        ctx.evaluated(('def-numpy', repr(v)))
        if not ok:
            ctx.fail(DEF_NUMPY_SIG, {'kind': 'def-numpy', 'value': repr(v)}, detail)
    # random stream: 2-6 definitions per file, values outside the known classes
    n = {'quick': 60, 'thorough': 3000}[ctx.tier]
    pend = []
    for i in range(n):
        if ctx.out_of_time() or (ctx.budget_s is not None and time.time() - ctx.t0 > 0.4 * ctx.budget_s):
            break                     # leave the larger part of the time box to the sequence stream
        rng = ctx.rng('defs%d' % i)
        keys = rng.sample(filegen.DEF_KEYS[1:], rng.randint(2, 6))   # 'FOV' must be numeric (set_definition takes its max)
        defs = [(k, filegen.rand_def_value(rng)) for k in keys]
        sysr = filegen.rand_system(rng, default_prob=0.5)
        ok, detail, texts = defs_roundtrip(defs, sysr)
        ctx.evaluated(('defs', i))
        for _, v in defs:
            ctx.count('defs.kind.%s' % ('str' if isinstance(v, str) else 'int' if isinstance(v, int) else 'float'
                                        if isinstance(v, float) else 'seq'))
            if isinstance(v, int) and abs(v) >= 10 ** 9:
                ctx.count('defs.int_10plus_digits')
            if isinstance(v, str) and ('  ' in v or '\t' in v):
                ctx.count('defs.str_blank_run_or_tab')
        case = {'kind': 'defs', 'index': i, 'defs': [[k, repr(v)] for k, v in defs]}
        if not ok:
            ctx.fail('C02/definitions-write-read-write-differs', case, detail)
            continue
        if want_model and ctx.model_available:
            try:
                pend.append({'case': case, 'tok1': filemodel.tokenize(texts[0]), 'tok3': filemodel.tokenize(texts[1]), 'sysr': sysr})
            except filemodel.TokenizeError as e:
                ctx.mismatch('tokenize', case, {'error': str(e)})
    if pend:
        flush(ctx, pend)


# ---- ambient process state ------------------------------------------------------------------------------------------
AMBIENTS = [
    {'TZ': 'UTC', 'PYTHONHASHSEED': '0', 'LC_ALL': 'C', 'shift': 0.0, 'name': 'a.seq', 'sub': '.'},
    {'TZ': 'Pacific/Kiritimati', 'PYTHONHASHSEED': '12345', 'LC_ALL': 'C.UTF-8', 'shift': 401 * 86400 + 7 * 3600.0, 'name': 'other name.v2.seq', 'sub': 'deep/er'},
    {'TZ': 'America/Los_Angeles', 'PYTHONHASHSEED': 'random', 'LC_ALL': 'POSIX', 'shift': -(9000 * 86400 + 13 * 3600.0), 'name': 'x.seq', 'sub': 'w'},
]


def ambient_stream(ctx):
    """the same sequence written in processes that differ in time zone, hash seed, locale, working directory, file
    name and wall clock (shifted by more than a year in both directions): the bytes must not depend on any of it"""
    import pickle
    import subprocess
    import sys
    n = {'quick': 4, 'thorough': 40}[ctx.tier]
    script = os.path.join(os.path.dirname(os.path.dirname(os.path.abspath(__file__))), 'ambient_writer.py')
    for i in range(n):
        if ctx.out_of_time():
            break
        rng = ctx.rng('ambient%d' % i)
        seq, nb, _ = filegen.random_sequence(rng, n_blocks=rng.randint(1, 6), history=True)
        if nb == 0:
            continue
        sig = rng.random() < 0.8
        case = {'kind': 'ambient', 'index': i, 'create_signature': sig,
                'ambients': [{k: v for k, v in a.items()} for a in AMBIENTS]}
        with tempfile.TemporaryDirectory(prefix='pvC02amb') as d:
            pk = os.path.join(d, 'seq.pickle')
            with open(pk, 'wb') as f:
                pickle.dump(seq, f)
            here = os.path.join(d, 'parent.seq')
            seq.write(here, create_signature=sig)
            outs = [open(here, 'rb').read()]
            procs = []
            for a in AMBIENTS:
                wd = os.path.join(d, a['sub'])
                os.makedirs(wd, exist_ok=True)
                env = dict(os.environ)
                env.update({'TZ': a['TZ'], 'PYTHONHASHSEED': a['PYTHONHASHSEED'], 'LC_ALL': a['LC_ALL'], 'LANG': a['LC_ALL']})
                out = os.path.join(wd, a['name'])
                procs.append((a, out, subprocess.Popen([sys.executable, script, pk, a['name'], repr(a['shift']), '1' if sig else '0'],
                                                       cwd=wd, env=env, stdout=subprocess.PIPE, stderr=subprocess.PIPE)))
            bad = None
            for a, out, p in procs:
                so, se = p.communicate(timeout=300)
                if p.returncode != 0 or not os.path.exists(out):
                    bad = {'what': 'child failed', 'ambient': a, 'stderr': se.decode(errors='replace')[-400:]}
                    break
                outs.append(open(out, 'rb').read())
        ctx.evaluated(('ambient', i))
        ctx.count('ambient.sequences')
        if bad:
            ctx.fail('C02/ambient-writer-failed', case, bad)
            continue
        for k in range(1, len(outs)):
            if outs[k] != outs[0]:
                l0, lk = outs[0].decode(errors='replace').split('\n'), outs[k].decode(errors='replace').split('\n')
                j = next((m for m in range(min(len(l0), len(lk))) if l0[m] != lk[m]), min(len(l0), len(lk)))
                ctx.fail('C02/output-depends-on-ambient-state', case,
                         {'ambient': AMBIENTS[k - 1], 'line': j, 'parent': l0[j] if j < len(l0) else None,
                          'child': lk[j] if j < len(lk) else None})
                break


def flush(ctx, pend):
    lines = ['file.rw' + filemodel.encode_read(p['tok1'], p['sysr'])[len('file.read'):] for p in pend]
    outs = ctx.model(lines)
    for p, o in zip(pend, outs):
        if o.startswith(('EXC', 'UNKNOWN')):
            ctx.mismatch('model-error', p['case'], {'out': o[:200]})
            continue
        bad = filemodel.compare_write(filemodel.decode_write(o), p['tok3'])
        if bad:
            ctx.mismatch('rewrite', p['case'], bad)


def run(ctx):
    n_cases = {'quick': 100, 'thorough': 4000}[ctx.tier]
    ambient_stream(ctx)
    defs_stream(ctx)
    pend = []
    for n in range(n_cases):
        if ctx.out_of_time():
            ctx.notes.append('time budget reached after %d sequences' % n)
            break
        r = one_case(ctx, n)
        if r:
            pend.append(r)
        if len(pend) >= 25:
            flush(ctx, pend)
            pend = []
    if pend:
        flush(ctx, pend)


def replay(ctx, case):
    if case.get('kind') == 'ambient':
        ambient_stream(ctx)
        return {'case': case, 'result': 'ambient-state stream re-run; see failures'}
    if str(case.get('kind', '')).startswith('def'):
        defs_stream(ctx, want_model=False)
        return {'case': case, 'result': 'definitions stream re-run; see failures'}
    r = one_case(ctx, int(case['index']))
    if r and ctx.model_available:
        flush(ctx, [r])
    return {'case': case, 'result': 'see failures / mismatches'}
