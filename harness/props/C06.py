"""C06 — get_block returns what was last stored at that index; caching is invisible."""
import copy
import os
import tempfile
import math
from fractions import Fraction

import numpy as np

import histories as H
import seqmodel as sm
from common import F

ID = 'C06'
GEN_SECTIONS = ['GenDedup', 'GenBlock', 'GenCache', 'FP_store_events', 'FP_store_ext', 'FP_store_checks', 'FP_get_block',
                'FP_event_lib', 'FP_dedup', 'FP_read_wrapper']
COQ_TARGETS = ['Props/C06.vo']
LEVEL = 'proof'
MANIFEST = {
    'text': 'Theorems (Coq, every interleaving of add_block, set_block, get_block, register_*, remove_duplicates (in place/copy), write and read, for arbitrary rounding functions): the cache-on and cache-off objects produce identical outputs and stores (bisimulation by induction over the operation list); every cached block equals decode of the current store; get_block(i) = decode(store, i); stored-is-returned (Proofs/SeqStored.v): after any history of block writes/reads, registrations and write() on a fresh sequence, a successful set_block/add_block with events by value makes the block decode to exactly the trapezoids (per channel: amplitude, rise, flat, fall, delay, trapezoid tag), the ADC row, the RF row with its magnitude/phase/time shapes (all but the `use` tag: known finding) and the shape-based gradients with their waveform/time shapes of the call, and that stays so until the index is written again (faithful-lookup invariant of the gradient/ADC libraries proved inductive); decoding is monotone under library growth; by-value and by-id storage agree; equal events share one entry, distinct events never do. Random histories of 5-40 operations run on twin implementations (cache on/off) and on the extracted model, comparing every output and the full library state after each operation, plus a reference dictionary of last-stored content.',
    'note': 'Trusted: Coq kernel; source fingerprints of block.py/event_lib.py/sequence.py regions the model transcribes; extraction + driver; numeric extraction inside register_*_event is taken from the implementation; caller never mutates returned blocks. Known finding C06/rf-use-shared-entry (RF events differing only in `use` share one entry) is recorded, not repaired.',
    'technique': 'Rocq/Coq proof (simulation between cached and uncached state machines, invariant over all operation histories) + twin-implementation differential histories',
}
BUDGET = {'quick': 200, 'thorough': 2400}
MISMATCH_BUDGET = 0.0
RULE = ('random histories of 5-40 operations (add_block, set_block on first/middle/last/gap index, get_block, '
        'register_*_event + use by id, remove_duplicates in place / copy, write, write+read) over a pool of recurring '
        'and nearly-equal events; every history runs on a cache-on and a cache-off Sequence (oracle: identical raise '
        'behaviour, stores and get_block results; decoded block equals the events last stored; library entries unique) '
        'and on the extracted Coq model (outcome, all nine libraries incl. keymap/next id, block table, durations and '
        'cache key set compared after EVERY operation). distinct = distinct op-kind sequences + event fingerprints; '
        'non-trivial = history contains an overwrite, a dedup or a read after at least one get_block')
TRUSTED = ['numeric extraction of amplitude/shape data inside register_*_event is taken from the implementation '
           '(scratch Sequence) and handed to the model as opaque library rows',
           'read(): the post-read store is taken from the implementation (Load); the reader itself is covered by C01']
ASSUMPTIONS = ['caller does not mutate returned blocks (the generator never does)',
               'block indices >= 1; by-id events reference ids returned by register_* (dangling ids only with get_block)']


def gen_history(rng, tier, collide_use=False):
    n_ops = rng.randint(5, 40 if tier == 'thorough' else 28)
    system = H.mk_system(rng, rng.choice([0, 0, 1]))
    pool = H.Pool(rng, system)
    pool.collide_use = collide_use
    tw = H.Twin(system)
    last_stored = {}
    prev_last = [0.0, 0.0, 0.0]
    kinds = []
    foreign = False
    for _ in range(n_ops):
        ids = list(tw.on.block_events.keys())
        r = rng.random()
        if foreign:
            # after reading a file written on a different gradient raster only reads / duplicate removal / write follow
            r = 0.5 + 0.45 * r if ids else 0.99
        if ids and not foreign and rng.random() < 0.06:
            # same events, different duration: warm the cache, overwrite block i with its own content passed by id
            # (or a pure delay) plus a longer delay, read again
            i = rng.choice(ids)
            tw.get(i)
            base = [e for e in last_stored.get(i, []) if getattr(e, 'type', None) in ('trap', 'adc', 'labelset', 'labelinc')]
            evs = by_id(rng, tw, base, always=True) if (base and len(base) == len([e for e in last_stored.get(i, []) if getattr(e, 'type', None) != 'delay'])) else []
            evs = evs + [__import__('pypulseq').make_delay(rng.choice([6e-3, 7e-3, 8e-3, 9e-3]))]
            rec = tw.set(i, evs)
            kinds.append('setdur')
            if rec['outcome'][0] == 'ok':
                last_stored[i] = evs
                if list(tw.on.block_events.keys())[-1] == i:
                    prev_last = ends_of(evs)
            rec = tw.get(i)
            if rec['outcome'][0] == 'ok' and i in last_stored:
                d = content_matches(rec['outcome'][1], last_stored[i], tw.on)
                if d:
                    tw.twin_diffs.append({'op': len(tw.ops) - 1, 'kind': 'get', 'index': i,
                                          'what': 'content differs from last stored: ' + d, 'class': 'content'})
            continue
        if not foreign and not tw.on.block_cache and rng.random() < (0.2 if not kinds else 0.08):
            # (only while nothing is cached: the model replays this call as a load of the new tables, which starts with an
            # empty cache, whereas the call itself leaves the cache alone)
            # the caller pins the numeric id of an extension kind (non-default numbering: ids are not 1..n afterwards);
            # kinds stored later must get ids that are still free
            name = rng.choice(['TRIGGERS', 'LABELSET', 'LABELINC'])
            num = rng.choice([2, 3, 5, 7])
            res = tw._both(lambda s_: s_.set_extension_string_ID(name, num))
            kinds.append('pinext' if res[0][0] == 'ok' else 'pinext:raised')
            if res[0][0] == 'ok' and res[1][0] == 'ok':
                tw._record('pinext', 'load ' + sm.core_tokens(tw.on), res)
            elif res[0][0] != res[1][0]:
                tw.twin_diffs.append({'op': len(tw.ops) - 1, 'kind': 'pinext', 'index': 0,
                                      'what': 'outcome differs between cache settings', 'class': 'content'})
            continue
        if not foreign and rng.random() < 0.03:
            # both twins read a file written by ANOTHER sequence on the same rasters (labels, triggers, gradients);
            # the history then continues on the loaded object
            stored = read_other(rng, tw, pool)
            kinds.append('readother')
            if stored is not None:
                last_stored = stored
                prev_last = [0.0, 0.0, 0.0]
                tw.on._pv_was_read = True
            continue
        if not foreign and rng.random() < 0.012:
            stored = read_foreign(rng, tw)
            kinds.append('readforeign')
            if stored is not None:
                foreign = True
                last_stored = stored
                tw.on._pv_was_read = True
            continue
        if r < 0.33 or not ids:
            evs = H.gen_block(rng, pool, prev_last, mostly_valid=rng.random() < 0.93)
            if rng.random() < 0.25:
                evs = by_id(rng, tw, evs)
            rec = tw.add(evs)
            kinds.append('add')
            if rec['outcome'][0] == 'ok':
                i = list(tw.on.block_events.keys())[-1]
                last_stored[i] = evs
                prev_last = ends_of(evs)
        elif r < 0.48:
            # overwrite first / middle / last, or a gap index
            c = rng.random()
            if c < 0.75:
                i = rng.choice([ids[0], ids[-1], rng.choice(ids)])
                # a block that fits between its neighbours most of the time: zero-to-zero content
                evs = H.gen_block(rng, pool, [0.0, 0.0, 0.0], mostly_valid=True)
                evs = [e for e in evs if not (getattr(e, 'type', '') == 'grad' and (e.first != 0 or e.last != 0))] or [pool.delay()]
            else:
                i = tw.on.next_free_block_ID + rng.choice([0, 1, 3])
                evs = H.gen_block(rng, pool, prev_last, mostly_valid=True)
            rec = tw.set(i, evs)
            kinds.append('set')
            if rec['outcome'][0] == 'ok':
                last_stored[i] = evs
                if list(tw.on.block_events.keys())[-1] == i:
                    prev_last = ends_of(evs)
        elif r < 0.76:
            i = rng.choice(ids + ids + [max(ids) + 2])
            rec = tw.get(i)
            kinds.append('get')
            if rec['outcome'][0] == 'ok' and i in last_stored:
                d = content_matches(rec['outcome'][1], last_stored[i], tw.on)
                if d:
                    cls = 'content'
                    if d == 'rf.use' and rf_use_shared(tw.on, i, rec['outcome'][1], last_stored[i]):
                        cls = 'rf-use-shared-entry'
                    tw.twin_diffs.append({'op': len(tw.ops) - 1, 'kind': 'get', 'index': i,
                                          'what': 'content differs from last stored: ' + d, 'class': cls})
        elif r < 0.82:
            ev = rng.choice([pool.trap, pool.rf, pool.adc, pool.label, lambda: pool.ext(None, 0.0, 0.0)])()
            tw.register(ev)
            kinds.append('register')
        elif r < 0.87:
            tw.dedup_in_place()
            kinds.append('dedupip')
        elif r < 0.90:
            tw.dedup_copy()
            kinds.append('dedupcp')
        elif r < 0.95:
            tw.write_read(do_read=False)
            kinds.append('write')
        else:
            tw.write_read(do_read=True, detect_rf_use=rng.random() < 0.3, remove_duplicates=rng.random() < 0.6)
            kinds.append('read')
            tw.on._pv_was_read = True
            last_stored = {}      # what is stored now is what the file holds (no `use`, rounded values)
            prev_last = [0.0, 0.0, 0.0]
            ids2 = list(tw.on.block_events.keys())
            if ids2:
                try:
                    b = tw.on.get_block(ids2[-1]) if False else None
                except Exception:
                    pass
                # after a read the continuation amplitude is what the library says
                gl = tw.on.grad_library
                ev = tw.on.block_events[ids2[-1]]
                prev_last = [float(gl.data[ev[2 + c]][5]) if ev[2 + c] and gl.type.get(ev[2 + c]) == 'g' and len(gl.data.get(ev[2 + c], ())) > 5
                             else 0.0 for c in range(3)]
    return tw, kinds


USE_NAMES = {'e': 'excitation', 'r': 'refocusing', 'i': 'inversion', 's': 'saturation', 'p': 'preparation'}


def rf_use_shared(seq, i, block, evs):
    """the decoded `use` is faithful to the library entry, but that entry was created by an earlier RF event
    with identical data and a different use (registration ignores `use` when looking the event up)"""
    rid = int(seq.block_events[i][1])
    t = seq.rf_library.type.get(rid, 'u')
    want = [e for e in evs if getattr(e, 'type', '') == 'rf']
    if not want:
        return False
    stored_use = getattr(want[0], 'use', 'undefined')
    return getattr(block.rf, 'use', None) == USE_NAMES.get(t, 'undefined') and USE_NAMES.get(t, 'undefined') != stored_use


def read_foreign(rng, tw):
    """both twins read a file that another Sequence wrote on a DIFFERENT gradient raster (20 us vs the twins' 10 us);
    returns {block id: events the writer stored} or None"""
    import pypulseq as pp
    r = 2e-5
    sysb = pp.Opts(grad_raster_time=r, max_grad=1e12, max_slew=1e15)
    fs = pp.Sequence(sysb)
    stored = {}
    for k in range(rng.randint(2, 5)):
        kind = rng.choice(['trap', 'arb', 'ext', 'adc'])
        if kind == 'trap':
            evs = [pp.make_trapezoid(rng.choice('xyz'), amplitude=rng.choice([1e5, -2e5]), rise_time=2e-4, flat_time=rng.choice([4e-4, 1e-3]),
                                     delay=rng.choice([0, 2e-4]), system=sysb)]
        elif kind == 'arb':
            n = rng.choice([6, 10, 16])
            w = rng.choice([1e5, -5e4]) * np.sin(np.linspace(0, math.pi, n + 2)[1:-1])
            evs = [pp.make_arbitrary_grad(rng.choice('xyz'), np.asarray(w, dtype=float), first=0.0, last=0.0, delay=rng.choice([0, 4e-5]), system=sysb)]
        elif kind == 'ext':
            evs = [pp.make_extended_trapezoid(rng.choice('xyz'), amplitudes=np.array([0, 1e5, 5e4, 0.0]),
                                              times=np.array([0, 10, 25, 40]) * r, system=sysb)]
        else:
            evs = [pp.make_adc(32, dwell=1e-5, delay=1e-4, system=sysb), pp.make_delay(1e-3)]
        fs.add_block(*evs)
        stored[k + 1] = evs
    with tempfile.TemporaryDirectory(prefix='pvC06f') as d:
        fn = os.path.join(d, 'f.seq')
        fs.write(fn, create_signature=False)
        res = tw._both(lambda s: s.read(fn))
    tw._record('read', 'load ' + sm.core_tokens(tw.on), res)
    if res[0][0] != 'ok':
        return None
    return stored


def read_other(rng, tw, pool):
    import pypulseq as pp
    fs = pp.Sequence(tw.on.system)
    if rng.random() < 0.4:
        # the writer numbered its extension kinds itself: the file declares e.g. only `extension LABELINC 2`
        for name in rng.sample(['TRIGGERS', 'LABELSET', 'LABELINC'], rng.choice([1, 2])):
            try:
                fs.set_extension_string_ID(name, rng.choice([2, 3, 5]))
            except ValueError:
                pass
    stored = {}
    for k in range(rng.randint(1, 4)):
        evs = H.gen_block(rng, pool, [0.0, 0.0, 0.0], mostly_valid=True)
        evs = [e for e in evs if getattr(e, 'type', '') != 'rf'
               and not (getattr(e, 'type', '') == 'grad' and (e.first != 0 or e.last != 0))] or [pool.delay()]
        if rng.random() < 0.7:
            evs = evs + [pool.label() for _ in range(rng.randint(1, 3))]
            if rng.random() < 0.5:
                evs.append(pool.trig())
        try:
            fs.add_block(*evs)
        except Exception:  # noqa: BLE001
            continue
        stored[list(fs.block_events.keys())[-1]] = evs
    if not stored:
        return None
    with tempfile.TemporaryDirectory(prefix='pvC06o') as d:
        fn = os.path.join(d, 'o.seq')
        try:
            fs.write(fn, create_signature=False)
        except AssertionError:
            return None
        res = tw._both(lambda s: s.read(fn))
    tw._record('read', 'load ' + sm.core_tokens(tw.on), res)
    if res[0][0] != 'ok':
        return None
    return stored


def by_id(rng, tw, evs, always=False):
    """pre-register some events and pass them by id (on both twins, recorded as register ops)"""
    out = []
    for e in evs:
        t = getattr(e, 'type', None)
        if t in ('trap', 'adc', 'labelset', 'labelinc') and (always or rng.random() < 0.6):
            rec = tw.register(e)
            if rec['outcome'][0] == 'ok':
                e2 = copy.deepcopy(e)
                v = rec['outcome'][1]
                e2.id = int(v[0]) if isinstance(v, tuple) else int(v)
                out.append(e2)
                continue
        out.append(e)
    return out


def ends_of(evs):
    res = [0.0, 0.0, 0.0]
    for e in evs:
        if getattr(e, 'type', '') == 'grad':
            res['xyz'.index(e.channel)] = float(e.last)
    return res


def close(a, b, rel=2e-5, absol=1e-9):
    return abs(float(a) - float(b)) <= rel * max(abs(float(a)), abs(float(b))) + absol


def content_matches(b, evs, seq):
    """decoded block vs the events last stored there (up to compression / declared rounding)"""
    want = {'rf': None, 'gx': None, 'gy': None, 'gz': None, 'adc': None, 'labels': [], 'trigs': []}
    for e in evs:
        t = getattr(e, 'type', None)
        if t == 'rf':
            want['rf'] = e
        elif t in ('trap', 'grad'):
            want['g' + e.channel] = e
        elif t == 'adc':
            want['adc'] = e
        elif t in ('labelset', 'labelinc'):
            want['labels'].append((t, e.label, float(e.value)))
        elif t in ('output', 'trigger'):
            want['trigs'].append((t, e.channel, float(e.delay), float(e.duration)))
    for nm in ('gx', 'gy', 'gz'):
        g, w = getattr(b, nm), want[nm]
        if (g is None) != (w is None):
            return nm + ' presence'
        if g is None:
            continue
        if g.type != w.type:
            return nm + ' type'
        if g.type == 'trap':
            for f in ('amplitude', 'rise_time', 'flat_time', 'fall_time', 'delay'):
                if not close(getattr(g, f), getattr(w, f)):
                    return '%s.%s %r vs %r' % (nm, f, getattr(g, f), getattr(w, f))
        else:
            if len(g.waveform) != len(w.waveform):
                return nm + ' waveform length'
            full = float(np.max(np.abs(w.waveform))) or 1.0
            if float(np.max(np.abs(np.asarray(g.waveform) - np.asarray(w.waveform)))) > 2e-5 * full:
                return nm + ' waveform'
            if float(np.max(np.abs(np.asarray(g.tt) - np.asarray(w.tt)))) > 1e-9:
                return nm + ' tt'
            step = seq.system.max_slew * seq.system.grad_raster_time if getattr(seq, '_pv_was_read', False) else 1e-5
            if not close(g.delay, w.delay):
                return nm + '.delay'
            for f in ('first', 'last'):
                if not close(getattr(g, f), getattr(w, f), absol=step):
                    return '%s.%s %r vs %r' % (nm, f, getattr(g, f), getattr(w, f))
    if (b.rf is None) != (want['rf'] is None):
        return 'rf presence'
    if b.rf is not None:
        w = want['rf']
        if len(b.rf.signal) != len(w.signal):
            return 'rf length'
        full = float(np.max(np.abs(w.signal))) or 1.0
        if float(np.max(np.abs(b.rf.signal - w.signal))) > 3e-5 * full:
            return 'rf signal'
        for f in ('delay', 'freq_offset', 'phase_offset'):
            if not close(getattr(b.rf, f), getattr(w, f)):
                return 'rf.' + f
        if len(b.rf.t) != len(w.t) or float(np.max(np.abs(np.asarray(b.rf.t) - np.asarray(w.t)))) > 1e-9:
            return 'rf.t (time shape)'
        if not close(b.rf.shape_dur, w.shape_dur, rel=1e-9, absol=1e-9):
            return 'rf.shape_dur'
        if hasattr(w, 'use') and getattr(b.rf, 'use', None) not in (w.use,):
            return 'rf.use'
    if (b.adc is None) != (want['adc'] is None):
        return 'adc presence'
    if b.adc is not None:
        for f in ('num_samples', 'dwell', 'delay', 'freq_offset', 'phase_offset'):
            if not close(getattr(b.adc, f), getattr(want['adc'], f)):
                return 'adc.' + f
    got_l = sorted((l.type, l.label, float(l.value)) for l in (b.label or {}).values())
    if got_l != sorted(want['labels']):
        return 'labels %s vs %s' % (got_l, sorted(want['labels']))
    got_t = sorted((t.type, t.channel, float(t.delay), float(t.duration)) for t in getattr(b, 'trigger', {}).values())
    wt = sorted(want['trigs'])
    if len(got_t) != len(wt) or any(a[:2] != w[:2] or not close(a[2], w[2]) or not close(a[3], w[3]) for a, w in zip(got_t, wt)):
        return 'triggers %s vs %s' % (got_t, wt)
    return None


def lib_unique(seq):
    for name in sm.LIBS:
        lib = getattr(seq, name)
        seen = {}
        for k, v in lib.data.items():
            key = (np.asarray(v, dtype=float).tobytes(), lib.type.get(k, ''))
            if key in seen:
                return '%s: ids %s and %s hold equal data' % (name, seen[key], k)
            seen[key] = k
    return None


def case_of(seed_tag, n, kinds):
    return {'stream': seed_tag, 'index': n, 'kinds': kinds}


def run_one(ctx, rng, n, tag, collide_use=False):
    tw, kinds = gen_history(rng, ctx.tier, collide_use)
    case = {'rng_stream': tag, 'history_index': n, 'kinds': kinds, 'seed': ctx.seed, 'tier': ctx.tier}
    ctx.count('ops.total', len(kinds))
    for k in kinds:
        ctx.count('op.' + k)
    nontrivial = ('get' in kinds) and any(k in kinds for k in ('set', 'dedupip', 'read'))
    ctx.evaluated((tag, n, tuple(kinds), tw.model_line()[:2000]), nontrivial=nontrivial)
    for d in tw.twin_diffs:
        sig = {'content': 'C06/content', 'rf-use-shared-entry': 'C06/rf-use-shared-entry'}.get(d.get('class'), 'C06/twin')
        ctx.fail(sig, case, d)
        break
    # (libraries filled by read() may legitimately hold rows that became equal through the file's rounding)
    u = lib_unique(tw.on) if 'read' not in kinds else None
    if u:
        ctx.fail('C06/library-duplicate', case, {'what': u})
    errs = [r['outcome'][1] for r in tw.records if r['outcome'][0] == 'err']
    for e in errs:
        ctx.count('raise.' + e.split(':')[0])
    if n % 60 == 0:
        ctx.sample({'kinds': kinds, 'blocks': list(tw.on.block_events.keys()), 'raises': errs[:5]})
    return tw, case


def run(ctx):
    n_hist = {'quick': 220, 'thorough': 4000}[ctx.tier]
    rng = ctx.rng('histories')
    batch = []
    for n in range(n_hist):
        if ctx.out_of_time():
            ctx.notes.append('time budget reached after %d histories' % n)
            break
        try:
            tw, case = run_one(ctx, rng, n, 'histories')
        except Exception as e:  # noqa: BLE001
            # the harness could not read the object's tables back (they no longer have the form the implementation's
            # own code gives them): the correspondence cannot be established on this history -- reported with the
            # history as the replay; later histories still run (the content oracle usually shows the effect)
            import traceback
            ctx.mismatch('history', {'rng_stream': 'histories', 'history_index': n, 'seed': ctx.seed, 'tier': ctx.tier},
                         {'what': 'state of the implementation cannot be read back by the harness',
                          'exception': repr(e)[:300], 'where': traceback.format_exc().strip().split('\n')[-3:]})
            ctx.evaluated(('histories', n, 'unreadable'))
            continue
        if ctx.model_available:
            batch.append((tw, case))
        if len(batch) >= 40:
            flush(ctx, batch)
            batch = []
    if batch:
        flush(ctx, batch)
    known_finding_stream(ctx)


def known_finding_stream(ctx):
    """reproducer of the recorded finding: RF events differing only in `use` share a library entry"""
    import pypulseq as pp
    s = pp.Sequence()
    a = pp.make_block_pulse(math.pi / 2, duration=1e-3, use='excitation')
    b = pp.make_block_pulse(math.pi / 2, duration=1e-3, use='refocusing')
    s.add_block(a)
    s.add_block(b)
    got = s.get_block(2).rf.use
    ctx.evaluated('kf-rf-use')
    ctx.count('stream.known_finding_reproducer')
    if got != 'refocusing':
        ctx.fail('C06/rf-use-shared-entry', {'reproducer': 'add_block(block pulse use=excitation); add_block(same pulse use=refocusing); get_block(2).rf.use'},
                 {'got': got, 'expected': 'refocusing', 'rf ids': [int(s.block_events[1][1]), int(s.block_events[2][1])]})
    # a few random histories with colliding uses: must only ever show this signature
    rng = ctx.rng('collide')
    for n in range(6 if ctx.tier == 'quick' else 100):
        run_one(ctx, rng, n, 'collide', collide_use=True)


def flush(ctx, batch):
    outs = ctx.model([tw.model_line() for tw, _ in batch])
    for (tw, case), o in zip(batch, outs):
        diffs = H.compare_with_model(tw, o)
        for d in diffs:
            ctx.mismatch('history', case, d)


def replay(ctx, case):
    import random
    rng = ctx.rng(case.get('rng_stream', 'histories'))
    # regenerate deterministically up to the recorded index
    tw = None
    if 'reproducer' in case:
        known_finding_stream(ctx)
        return {'reproducer': case['reproducer']}
    for n in range(case['history_index'] + 1):
        try:
            tw, kinds = gen_history(rng, case.get('tier', 'quick'), case.get('rng_stream') == 'collide')
        except Exception as e:  # noqa: BLE001
            if n == case['history_index']:
                ctx.mismatch('history', case, {'what': 'state of the implementation cannot be read back by the harness',
                                               'exception': repr(e)[:300]})
                return {'exception': repr(e)[:300]}
    res = {'kinds': kinds, 'twin_diffs': tw.twin_diffs[:3]}
    for d in tw.twin_diffs[:1]:
        ctx.fail('C06/twin', case, d)
    return res
