"""C01 — write then read reproduces every block within .seq precision."""
import math
import os
import tempfile
from collections import Counter
from fractions import Fraction

import numpy as np

import common
import filegen
import filemodel
from common import F

ID = 'C01'
GEN_SECTIONS = ['GenFile', 'GenDedup', 'GenScan', 'FP_file_io', 'FP_first_last_scan']
COQ_TARGETS = ['Props/C01.vo']
EXTRACT_TARGETS = ['Extract/Ex_file.vo']
RUNNER = 'file'
LEVEL = 'proof'
MANIFEST = {
    'text': "Theorems (Coq, over the column tables regenerated from write_seq.py/read_seq.py on every run; all rationals, all rows, "
            "all libraries): every column's write multiplier times read scale is 1; integer (us/ns/id) columns re-read exactly when "
            "the value is on the grid and within half a unit otherwise; 6-significant-digit columns re-read within 5e-6 relative; "
            "%.9g shape samples re-read exactly for multiples of 1e-7 below 100; the rasters of the re-read state are those of "
            "[DEFINITIONS] whatever the reading system; row- and library-level round-trip (row_sim) by induction; KF-5 witness "
            "(RF delay 1.234567 s is not reproduced). On the implementation: random timing-valid sequences (all event kinds, "
            "arbitrary gradients connected across blocks with non-zero edges of both signs) are written with one random system and "
            "read with an independently drawn one; get_block of every block is compared field by field within the format "
            "precision; the extracted model reproduces the file token by token as exact decimals and the libraries after read().",
    'note': 'Trusted: Coq kernel; translator patterns (gensec/file.py); text rendering/parsing of decimals (str.format, float(), '
            'np.fromstring) sampled by an independent tokenizer; binary64 products (value*1e6) outside the model; first/last '
            'reconstruction and get_block decoding are checked by the oracle, not by theorem.',
    'technique': 'Rocq/Coq proof over generated format tables (decimal rounding lemmas, induction over rows) + extraction-based '
                 'two-stage token correspondence + exact oracle on get_block',
}
BUDGET = {'quick': 80, 'thorough': 1500}
MISMATCH_BUDGET = 0.0
ESCALATE_BUDGET = 120
SEARCH_BUDGET = 120
RULE = ('random timing-valid sequences (1-12 blocks; RF block/sinc/gauss/arbitrary, trapezoids, extended trapezoids, arbitrary '
        'gradients connected across blocks with non-zero edges of both signs, ADC, delays, labels, triggers/outputs, numeric and '
        'string definitions); writer system and reader system drawn independently (gradient raster 4/5/10/20 us, RF raster 1/2 us, '
        'block raster, dead times, limits). Oracle: get_block(i) original vs re-read, ids/counts/integer-us/ns times exact, '
        'amplitudes/offsets 5.1e-6 relative, shape samples 1.1e-7 of full scale, first/last within one slew step, labels/triggers '
        'as multisets, block ids and durations equal. Correspondence (a) deduplicated library state -> model write_rows == tokens '
        'of the real file as exact decimals; (b) tokens -> model read_rows == libraries/rasters after read(). '
        'distinct = distinct file texts; non-trivial = files with at least one gradient shape or RF')
TRUSTED = ['text rendering and parsing of decimals (str.format, float, np.fromstring): sampled with an independent tokenizer',
           'binary64 arithmetic of the writer (value*1e6, value/raster) is outside the model; generated times sit on the raster, '
           'far from rounding ties',
           'bulk sample arrays (RF signal, waveforms) are compared in binary64 against tolerances >= 1e-7 (scalars use exact Fractions)']
ASSUMPTIONS = ['sequences pass check_timing (others are skipped and counted)',
               'RF delays stay below 1 s (KF-5: at or above 1 s the delay is printed with 6 significant digits; reproducer stream '
               'kept, theorem rf_delay_exact_refuted)',
               'stored first/last of arbitrary gradients are within a fraction of a slew step of the extrapolated edge (KF-13: '
               'make_arbitrary_grad does not enforce it)']

US = Fraction(1, 10 ** 6)
NS = Fraction(1, 10 ** 9)
REL = Fraction(51, 10 ** 7)        # 5.1e-6
SHAPE_TOL = 1.1e-7
GRID_TOL = Fraction(1, 10 ** 12)
KF5_SIG = 'C01/rf-delay>=1s-7digits'


# ---- oracle helpers ------------------------------------------------------------------------------
def grid_int(x, unit):
    f = F(float(x))
    n = round(f / unit)
    return n, abs(f - n * unit) <= GRID_TOL


def same_time(a, b, unit):
    """the re-read time is on the grid of the format and is the original within half a unit (a value that already is
    on the grid therefore comes back exactly; rasters like 6.4 us or 0.5 us hold values the format can only round)"""
    nb, okb = grid_int(b, unit)
    return okb and abs(F(float(b)) - F(float(a))) <= unit / 2 + GRID_TOL


def rel_close(a, b):
    fa, fb = F(float(a)), F(float(b))
    return abs(fb - fa) <= REL * abs(fa)


def arr_times_equal(t1, t2):
    t1 = np.asarray(t1, dtype=float)
    t2 = np.asarray(t2, dtype=float)
    if t1.shape != t2.shape:
        return False
    n1 = np.rint(t1 * 1e9)
    n2 = np.rint(t2 * 1e9)
    return bool(np.all(n1 == n2) and np.all(np.abs(t2 - n2 * 1e-9) <= 1e-12))


def shape_close(w1, w2):
    """(amplitude ok, shape ok) for real or complex sample arrays"""
    w1 = np.asarray(w1)
    w2 = np.asarray(w2)
    if w1.shape != w2.shape:
        return False, False
    a1 = float(np.max(np.abs(w1))) if w1.size else 0.0
    a2 = float(np.max(np.abs(w2))) if w2.size else 0.0
    if a1 == 0.0:
        return a2 == 0.0, True
    amp_ok = rel_close(a1, a2)
    if a2 == 0.0:
        return False, False
    s1, s2 = w1 / a1, w2 / a2
    if np.iscomplexobj(s1) or np.iscomplexobj(s2):
        mag_ok = bool(np.all(np.abs(np.abs(s1) - np.abs(s2)) <= SHAPE_TOL))
        # phase is stored as phase/(2 pi) with the same quantum; compare where the magnitude carries a phase
        m = np.abs(s1) > 1e-3
        dphi = np.angle(s2[m] * np.conj(s1[m])) / (2 * math.pi)
        ph_ok = bool(np.all(np.abs(dphi) <= SHAPE_TOL + 1e-9))
        return amp_ok, mag_ok and ph_ok
    return amp_ok, bool(np.all(np.abs(s1 - s2) <= SHAPE_TOL))


def compare_blocks(b1, b2, step):
    """first difference between an original and a re-read block: (short signature, detail) or None"""
    d1, d2 = F(float(b1.block_duration)), F(float(b2.block_duration))
    if abs(d1 - d2) > GRID_TOL:
        return 'block-duration', {'orig': float(d1), 'reread': float(d2)}
    # RF
    if (b1.rf is None) != (b2.rf is None):
        return 'rf-presence', {}
    if b1.rf is not None:
        r1, r2 = b1.rf, b2.rf
        if len(r1.signal) != len(r2.signal):
            return 'rf-length', {'orig': len(r1.signal), 'reread': len(r2.signal)}
        amp_ok, sh_ok = shape_close(r1.signal, r2.signal)
        if not amp_ok:
            return 'rf-amplitude', {'orig': float(np.max(np.abs(r1.signal))), 'reread': float(np.max(np.abs(r2.signal)))}
        if not sh_ok:
            return 'rf-shape', {}
        if not arr_times_equal(r1.t, r2.t):
            return 'rf-t', {'orig': [float(v) for v in r1.t[:3]], 'reread': [float(v) for v in r2.t[:3]]}
        # the RF delay column is '{:g}' of microseconds (6 significant digits), not an integer column
        if abs(F(float(r2.delay)) - F(float(r1.delay))) > max(REL * abs(F(float(r1.delay))), GRID_TOL):
            return 'rf-delay', {'orig': float(r1.delay), 'reread': float(r2.delay)}
        if not same_time(r1.shape_dur, r2.shape_dur, NS):
            return 'rf-shape_dur', {'orig': float(r1.shape_dur), 'reread': float(r2.shape_dur)}
        for fld in ('freq_offset', 'phase_offset'):
            if not rel_close(getattr(r1, fld), getattr(r2, fld)):
                return 'rf-' + fld, {'orig': float(getattr(r1, fld)), 'reread': float(getattr(r2, fld))}
    # gradients
    for ch in ('gx', 'gy', 'gz'):
        g1, g2 = getattr(b1, ch), getattr(b2, ch)
        if (g1 is None) != (g2 is None):
            return 'grad-presence', {'channel': ch}
        if g1 is None:
            continue
        if g1.type != g2.type or g1.channel != g2.channel:
            return 'grad-type', {'channel': ch, 'orig': g1.type, 'reread': g2.type}
        if g1.type == 'trap':
            if not rel_close(g1.amplitude, g2.amplitude):
                return 'trap-amplitude', {'channel': ch, 'orig': float(g1.amplitude), 'reread': float(g2.amplitude)}
            for fld in ('rise_time', 'flat_time', 'fall_time', 'delay'):
                if not same_time(getattr(g1, fld), getattr(g2, fld), US):
                    return 'trap-' + fld, {'channel': ch, 'orig': float(getattr(g1, fld)), 'reread': float(getattr(g2, fld))}
        else:
            if len(g1.waveform) != len(g2.waveform):
                return 'grad-length', {'channel': ch}
            amp_ok, sh_ok = shape_close(g1.waveform, g2.waveform)
            if not amp_ok:
                return 'grad-amplitude', {'channel': ch, 'orig': float(np.max(np.abs(g1.waveform))),
                                          'reread': float(np.max(np.abs(g2.waveform)))}
            if not sh_ok:
                return 'grad-shape', {'channel': ch}
            if not arr_times_equal(g1.tt, g2.tt):
                return 'grad-tt', {'channel': ch, 'orig': [float(v) for v in g1.tt[:3]], 'reread': [float(v) for v in g2.tt[:3]]}
            if not same_time(g1.delay, g2.delay, US):
                return 'grad-delay', {'channel': ch, 'orig': float(g1.delay), 'reread': float(g2.delay)}
            if not same_time(g1.shape_dur, g2.shape_dur, NS):
                return 'grad-shape_dur', {'channel': ch, 'orig': float(g1.shape_dur), 'reread': float(g2.shape_dur)}
            for fld in ('first', 'last'):
                if not hasattr(g2, fld):
                    return 'grad-' + fld + '-missing', {'channel': ch}
                if abs(F(float(getattr(g1, fld))) - F(float(getattr(g2, fld)))) > step:
                    return 'grad-' + fld, {'channel': ch, 'orig': float(getattr(g1, fld)), 'reread': float(getattr(g2, fld)),
                                           'slew_step': float(step)}
    # ADC
    if (b1.adc is None) != (b2.adc is None):
        return 'adc-presence', {}
    if b1.adc is not None:
        a1, a2 = b1.adc, b2.adc
        if int(a1.num_samples) != int(a2.num_samples):
            return 'adc-num_samples', {'orig': int(a1.num_samples), 'reread': int(a2.num_samples)}
        if not same_time(a1.dwell, a2.dwell, NS):
            return 'adc-dwell', {'orig': float(a1.dwell), 'reread': float(a2.dwell)}
        if not same_time(a1.delay, a2.delay, US):
            return 'adc-delay', {'orig': float(a1.delay), 'reread': float(a2.delay)}
        for fld in ('freq_offset', 'phase_offset'):
            if not rel_close(getattr(a1, fld), getattr(a2, fld)):
                return 'adc-' + fld, {'orig': float(getattr(a1, fld)), 'reread': float(getattr(a2, fld))}
    # labels / triggers as multisets
    def labs(b):
        return Counter((l.type, l.label, int(l.value)) for l in (b.label or {}).values())

    def trigs(b):
        return sorted(((t.type, t.channel, float(t.delay), float(t.duration)) for t in getattr(b, 'trigger', {}).values()))

    def trigs_equal(l1, l2):
        return len(l1) == len(l2) and all(x[0] == y[0] and x[1] == y[1] and same_time(x[2], y[2], US) and same_time(x[3], y[3], US)
                                          for x, y in zip(l1, l2))
    if labs(b1) != labs(b2):
        return 'labels', {'orig': sorted(map(str, labs(b1).elements())), 'reread': sorted(map(str, labs(b2).elements()))}
    if not trigs_equal(trigs(b1), trigs(b2)):
        return 'triggers', {'orig': [str(x) for x in trigs(b1)], 'reread': [str(x) for x in trigs(b2)]}
    return None


def oracle(ctx, case, seq, s2, sysw):
    ids1 = [int(b) for b in seq.block_events]
    ids2 = [int(b) for b in s2.block_events]
    if ids1 != ids2:
        ctx.fail('C01/block-ids', case, {'orig': ids1, 'reread': ids2})
        return False
    step = F(float(sysw.max_slew)) * F(float(seq.grad_raster_time))
    for b in ids1:
        try:
            b1 = seq.get_block(b)
            b2 = s2.get_block(b)
        except Exception as e:  # noqa: BLE001
            ctx.fail('C01/get_block-raises', case, {'block': b, 'exception': repr(e)})
            return False
        bad = compare_blocks(b1, b2, step)
        if bad:
            ctx.fail('C01/' + bad[0], case, dict(bad[1], block=b))
            return False
    return True


# ---- cases -----------------------------------------------------------------------------------------
def build(ctx, index):
    rng = ctx.rng('seq%d' % index)
    if index < 0:     # fixed corpus (run first)
        seq, nb, sysw = filegen.shared_gradient_corpus()
        return rng, seq, nb, sysw, filegen.rand_system(rng, default_prob=0.3)
    seq, nb, sysw = filegen.random_sequence(rng, twins=True, history=True)
    sysr = filegen.rand_system(rng, default_prob=0.3)
    return rng, seq, nb, sysw, sysr


def sys_desc(s):
    return {k: float(getattr(s, k)) for k in ('grad_raster_time', 'rf_raster_time', 'block_duration_raster', 'adc_dead_time',
                                              'rf_dead_time', 'rf_ringdown_time', 'max_grad', 'max_slew')}


def one_case(ctx, index, want_model=True):
    import pypulseq as pp
    rng, seq, nb, sysw, sysr = build(ctx, index)
    if nb == 0:
        ctx.count('skipped.empty')
        return None
    ok, _ = seq.check_timing()
    if not ok:
        ctx.count('skipped.check_timing')
        return None
    case = {'index': index, 'blocks': nb, 'writer': sys_desc(sysw), 'reader': sys_desc(sysr)}
    sig = rng.random() < 0.5
    with tempfile.TemporaryDirectory(prefix='pvC01') as d:
        fn = os.path.join(d, 'a.seq')
        try:
            seq.write(fn, create_signature=sig, check_timing=rng.random() < 0.6)
        except AssertionError:
            ctx.count('skipped.write_assertion')
            return None
        text = open(fn).read()
        used = rng.random() < 0.5
        s2 = filegen.used_reader(rng, sysr, d) if used else pp.Sequence(sysr)
        ctx.count('reader.' + ('with_prior_content' if used else 'fresh'))
        try:
            s2.read(fn)
        except Exception as e:  # noqa: BLE001
            ctx.fail('C01/read-raises', case, {'exception': repr(e), 'reader_with_prior_content': used})
            return None
        s3 = pp.Sequence(sysr)
        s3.read(fn, remove_duplicates=False)
        # second generation without duplicate removal on either side: write(rd=False) of what read(rd=False) gave, read again
        s4 = None
        if rng.random() < 0.5:
            fn2 = os.path.join(d, 'b.seq')
            s3b = pp.Sequence(sysr)
            try:
                s3b.read(fn, remove_duplicates=False)
                s3b.write(fn2, create_signature=False, remove_duplicates=False, check_timing=False)
                s4 = pp.Sequence(filegen.rand_system(rng, default_prob=0.3))
                s4.read(fn2, remove_duplicates=rng.random() < 0.5)
            except Exception as e:  # noqa: BLE001
                ctx.fail('C01/second-generation-raises', case, {'exception': repr(e)[:300]})
                return None
            ctx.count('second_generation.no_dedup')
    n_arb = sum(1 for k in seq.grad_library.type.values() if k == 'g')
    ctx.evaluated(common.stable_hash(text), nontrivial=bool(n_arb or len(seq.rf_library.data)))
    ctx.count('graster_w.%g' % sysw.grad_raster_time)
    ctx.count('graster_r.%g' % sysr.grad_raster_time)
    ctx.count('rfraster_w.%g' % sysw.rf_raster_time)
    ctx.count('blocks.%s' % ('1-3' if nb <= 3 else '4-8' if nb <= 8 else '9+'))
    for nm, lib in (('rf', seq.rf_library), ('grad', seq.grad_library), ('adc', seq.adc_library), ('trig', seq.trigger_library),
                    ('lset', seq.label_set_library), ('linc', seq.label_inc_library), ('shape', seq.shape_library)):
        ctx.count('events.' + nm, len(lib.data))
    ctx.count('events.grad_arbitrary_or_ext', n_arb)
    nz = 0
    for k, v in seq.grad_library.data.items():
        if seq.grad_library.type[k] == 'g' and (v[4] != 0 or v[5] != 0):
            nz += 1
            ctx.count('edges.first_%s' % ('pos' if v[4] > 0 else 'neg' if v[4] < 0 else 'zero'))
    ctx.count('events.grad_nonzero_edge', nz)
    ctx.count('reuse.connected_events_reused', getattr(seq, '_gen_reused', 0))
    ctx.count('reuse.rescaled_twins_same_file_row', getattr(seq, '_gen_twins', 0))
    ctx.count('twins.value_below_print_precision', getattr(seq, '_gen_value_twins', 0))
    ctx.count('araster_w.%g' % sysw.adc_raster_time)
    tr = 0
    for k, v in seq.grad_library.data.items():
        cols = [v[3]] if seq.grad_library.type[k] == 'g' else list(v[1:])
        tr += sum(1 for x in cols if int(x * 1e6) != round(x * 1e6))
        if seq.grad_library.type[k] == 'g' and v[3] != 0:
            ctx.count('timecols.grad_delay_nonzero')
    tr += sum(1 for v in seq.adc_library.data.values() if int(v[2] * 1e6) != round(v[2] * 1e6) or int(v[1] * 1e9) != round(v[1] * 1e9))
    tr += sum(1 for v in seq.trigger_library.data.values() if any(int(x * 1e6) != round(x * 1e6) for x in v[2:]))
    ctx.count('timecols.truncation_differs_from_rounding', tr)
    ok = oracle(ctx, case, seq, s2, sysw)
    if ok and s4 is not None:
        ok = oracle(ctx, dict(case, generation=2), seq, s4, sysw)
    if index % 40 == 0:
        ctx.sample({'case': case, 'file_chars': len(text), 'oracle_ok': ok, 'head': text[:200]})
    if not (ok and want_model and ctx.model_available):
        return None
    try:
        tok = filemodel.tokenize(text)
    except filemodel.TokenizeError as e:
        ctx.mismatch('tokenize', case, {'error': str(e)})
        return None
    dd = seq.remove_duplicates()
    return {'case': case, 'state': filemodel.dump_state(dd), 'tok': tok, 's3': s3, 'sysr': sysr}


def flush(ctx, pend):
    lines = []
    for p in pend:
        lines.append(filemodel.encode_write(p['state']))
        lines.append(filemodel.encode_read(p['tok'], p['sysr']))
        p['scan_lib'], blocks = filemodel.scan_inputs(p['s3'])
        lines.append(filemodel.encode_scan(p['scan_lib'], blocks))
    outs = ctx.model(lines)
    for i, p in enumerate(pend):
        ow, orr, osc = outs[3 * i], outs[3 * i + 1], outs[3 * i + 2]
        if osc.startswith(('EXC', 'UNKNOWN')):
            ctx.mismatch('model-error', p['case'], {'scan': osc[:200]})
        else:
            bad = filemodel.compare_scan(osc, p['s3'], p['scan_lib'])
            if bad:
                ctx.mismatch('scan', p['case'], bad)
        if ow.startswith(('EXC', 'UNKNOWN')) or orr.startswith(('EXC', 'UNKNOWN')):
            ctx.mismatch('model-error', p['case'], {'write': ow[:200], 'read': orr[:200]})
            continue
        if filemodel.tie_prone(p['state']):
            ctx.count('corr.write_stage_skipped_rounding_tie')   # a time that is half a unit of its column: binary64 product decides
        else:
            bad = filemodel.compare_write(filemodel.decode_write(ow), p['tok'])
            if bad:
                ctx.mismatch('write', p['case'], bad)
        bad = filemodel.compare_read(filemodel.decode_read(orr), p['s3'])
        if bad:
            ctx.mismatch('read', p['case'], bad)


def kf5_stream(ctx):
    """KF-5 reproducer: RF delays of 1.234567 s / 1.234568 s are printed as 1.23457e+06 us"""
    import pypulseq as pp
    system = pp.Opts(rf_dead_time=0, rf_ringdown_time=0)
    seq = pp.Sequence(system)
    for dl in (1.234567, 1.234568):
        seq.add_block(pp.make_block_pulse(math.pi / 2, duration=1e-3, delay=dl, system=system), pp.make_delay(1.3))
    ok, _ = seq.check_timing()
    with tempfile.TemporaryDirectory(prefix='pvC01') as d:
        fn = os.path.join(d, 'kf5.seq')
        seq.write(fn, create_signature=False)
        s2 = pp.Sequence(system)
        s2.read(fn)
    got = [float(s2.get_block(b).rf.delay) for b in (1, 2)]
    reproduced = ok and not (same_time(1.234567, got[0], US) and same_time(1.234568, got[1], US))
    ctx.count('kf5.reproduced' if reproduced else 'kf5.not_reproduced')
    if reproduced:
        known = {k['signature'] for k in common.load_known() if k.get('property') == ID and k.get('status') == 'known'}
        if KF5_SIG in known:
            ctx.fail(KF5_SIG, {'kind': 'kf5'}, {'delays': [1.234567, 1.234568], 'reread': got})
        else:
            ctx.notes.append('KF-5 reproduced (RF delays 1.234567/1.234568 s re-read as %r); not listed as known in '
                             'known_findings.json, recorded here only' % (got,))


def run(ctx):
    n_cases = {'quick': 130, 'thorough': 4000}[ctx.tier]
    kf5_stream(ctx)
    pend = []
    for n in range(-1, n_cases):
        if ctx.out_of_time():
            ctx.notes.append('time budget reached after %d sequences' % n)
            break
        r = one_case(ctx, n)
        if r:
            pend.append(r)
        if len(pend) >= 25:
            flush(ctx, pend)
            pend = []
    if pend:
        flush(ctx, pend)


def replay(ctx, case):
    if case.get('kind') == 'kf5':
        kf5_stream(ctx)
        return {'case': case}
    r = one_case(ctx, int(case['index']))
    if r and ctx.model_available:
        flush(ctx, [r])
    return {'case': case, 'result': 'see failures / mismatches'}
