"""C05 — block assembly only admits gradients that are continuous across blocks."""
import copy
import math
from fractions import Fraction

import numpy as np

import histories as H
import seqmodel as sm
from common import F

ID = 'C05'
GEN_SECTIONS = ['GenBlock', 'FP_store_events', 'FP_store_checks', 'FP_event_lib']
COQ_TARGETS = ['Props/C05.vo']
LEVEL = 'proof'
MANIFEST = {
    'text': 'Theorems (Coq): per channel, set_block accepts a block exactly when the four rules of the property hold (iff, any neighbours/index; first-block variant); the alignment rule is sign-symmetric; continuity of the whole block table is an invariant of EVERY history of add_block/set_block/get_block/register_*/write operations (induction over the operation list; append, overwrite anywhere, non-contiguous ids). The comparison form (abs) and tolerance are re-read from block.py on every run. Histories with ~45% rule-violating blocks are replayed on the implementation and on the extracted model (outcome class and full store after every call); an independent exact evaluation of the rules on decoded neighbours must agree with every accept/reject, and the final table must be continuous.',
    'note': 'Trusted: Coq kernel; translator patterns + source fingerprints of set_block; extraction + driver; floating-point extraction of first/last/shape rows inside register_grad_event is taken from the implementation; amplitude levels are kept 2x away from the one-step threshold. Hypothesis reg_ok (no stand-alone registration with a one-element shape-id list) is needed and shown necessary by a kernel-checked counterexample.',
    'technique': 'Rocq/Coq proof (invariant by induction over operation histories; iff characterisation of the acceptance check) + history-based correspondence',
}
BUDGET = {'quick': 200, 'thorough': 2400}
MISMATCH_BUDGET = 0.0
RULE = ('histories of 2-14 add_block/set_block calls (append, overwrite first/middle/last, non-contiguous ids) with, per '
        'channel, none / trapezoid / extended-trapezoid / raster gradient from {0,+A,-A,+B} to {0,+A,-A,+B}, with and without '
        'delay, aligned or not to the block end (about 45% of the attempted blocks violate a rule); 18% of the calls pass the very '
        'events of an earlier call again; interleaved: write+read of the own file followed by overwriting blocks with their own '
        'events, assignment of another system, flip_grad_axis; 12% of the histories are walks over a small alphabet of '
        'extended gradients (ids recur) that are written, read and re-stored block by block. Oracles on the '
        'implementation: (a) an independent exact evaluation of the four rules against the decoded neighbours must agree '
        'with accept/reject of every call (soundness and completeness, sign-symmetric by construction), (b) the final '
        'block table must be continuous per channel. Every history also runs on the extracted Coq model (outcome class and '
        'complete store after every call). distinct = distinct histories; non-trivial = at least one non-zero block edge')
TRUSTED = ['numeric extraction of first/last/shape rows inside register_grad_event taken from the implementation']
ASSUMPTIONS = ['amplitude level differences are kept >= 20% away from the one-slew-step threshold (binary64 vs exact comparison)',
               'block indices >= 1, gradients passed by value']

LEVELS = [0.0, 2.0e5, -2.0e5, 3.5e5]


def gen_grad(rng, pool, ch, want_first, block_len):
    """one gradient for channel ch; returns event"""
    first = want_first if rng.random() < 0.8 else rng.choice(LEVELS)
    last = rng.choice(LEVELS + [first, -first, 0.0])
    kind = rng.random()
    if first == 0 and last == 0 and kind < 0.4:
        return pool.trap(ch)
    delay = 0.0
    if rng.random() < (0.35 if first == 0 else 0.12):
        delay = rng.choice([1e-4, 2e-4, H.RASTER, 2 * H.RASTER])      # also delays of one or two raster steps
    aligned = rng.random() < (0.85 if last != 0 else 0.4)
    n = int(round((block_len - delay) / H.RASTER)) if aligned else rng.choice([20, 30, 50])
    if not aligned and rng.random() < 0.35:
        # ends one or two raster steps before the block end (the alignment tolerance must not grow with the block length)
        n = int(round((block_len - delay) / H.RASTER)) - rng.choice([1, 2])
    n = max(4, n)
    if n > 5000:
        kind = 0.0          # very long gradients only as extended trapezoids (three corners)
    if kind < 0.75:
        return pool.ext(ch, first, last, delay=delay, dur=n * H.RASTER)
    return pool.arb(ch, first, last, delay=delay, n=n)


def gen_block(rng, pool, prev_last):
    block_len = rng.choice([6e-4, 8e-4, 1e-3, 6e-4, 8e-4, 1e-3, 1.2, 2.5])
    evs = []
    for ci, ch in enumerate('xyz'):
        if rng.random() < (0.45 if prev_last[ci] == 0 else 0.08):
            continue
        evs.append(gen_grad(rng, pool, ch, prev_last[ci], block_len))
    if rng.random() < 0.6 or not evs:
        evs.append(__import__('pypulseq').make_delay(block_len))
    if rng.random() < 0.05 and evs and getattr(evs[0], 'type', '') in ('grad', 'trap'):
        evs.append(copy.deepcopy(evs[0]))      # duplicate channel -> ValueError
    rng.shuffle(evs)
    return evs


def summary(seq, ev):
    """(start_t, first, stop_t, last) exactly as rationals; trapezoids and absent gradients are (0,0,0,0)"""
    if ev is None or ev.type == 'trap':
        return (Fraction(0), Fraction(0), Fraction(0), Fraction(0))
    r = F(seq.grad_raster_time)
    d = F(ev.delay)
    st = d + math.floor(F(ev.tt[0]) / r + Fraction(1, 10 ** 10)) * r
    sp = d + math.ceil(F(ev.tt[-1]) / r - Fraction(1, 10 ** 10)) * r
    return (st, F(ev.first), sp, F(ev.last))


def ev_end(seq, e):
    t = getattr(e, 'type', None)
    if isinstance(e, float):
        return F(e)
    if t == 'trap':
        return F(e.delay) + F(e.rise_time) + F(e.flat_time) + F(e.fall_time)
    if t == 'grad':
        return summary(seq, e)[2]
    if t == 'delay':
        return F(e.delay)
    return Fraction(0)


def edge_of(seq, edges, b, ch, which):
    """edge value (0 = first, 1 = last) of block b on channel ch: what the caller added there (edges table), or what the
    store decodes to when the block came from a file"""
    if b in edges:
        return edges[b].get(ch, (Fraction(0), Fraction(0)))[which]
    g = getattr(seq.get_block(b), 'g' + ch)
    if g is None or g.type != 'grad':
        return Fraction(0)
    return F(g.first if which == 0 else g.last)


def edges_of_events(evs):
    out = {}
    for e in evs:
        if getattr(e, 'type', None) == 'grad':
            out[e.channel] = (F(e.first), F(e.last))
    return out


def expected(seq, i, evs, edges=None):
    """independent evaluation of the property's rules; returns None (accept) or the violated rule"""
    edges = edges if edges is not None else {}
    step = F(seq.system.max_slew) * F(seq.system.grad_raster_time)
    eps = Fraction(1, 10 ** 9)
    chans = {}
    for e in evs:
        if getattr(e, 'type', None) in ('trap', 'grad'):
            if e.channel in chans:
                return 'multiple'
            chans[e.channel] = e
    dur = max([ev_end(seq, e) for e in evs] + [Fraction(0)])
    ids = list(seq.block_events.keys())
    if i in ids:
        p = ids.index(i)
        prev = ids[p - 1] if p > 0 else None
        nxt = ids[p + 1] if p < len(ids) - 1 else None
    else:
        prev = ids[-1] if ids else None
        nxt = None
    for ch in 'xyz':
        st, first, sp, last = summary(seq, chans.get(ch))
        if abs(first) > step and st > eps:
            return 'delaynz'
        if ids:
            pl = edge_of(seq, edges, prev, ch, 1) if prev is not None else Fraction(0)
            if abs(pl - first) > step:
                return 'connect'
            if nxt is not None:
                nf = edge_of(seq, edges, nxt, ch, 0)
                if abs(nf - last) > step:
                    return 'connect'
        elif abs(first) > step:
            return 'firstnz'
        if abs(last) > step and abs(sp - dur) > Fraction(1, 10 ** 7):
            return 'align'
    return None


def continuity_of_table(seq, step=None):
    # (histories that assign another system: every block was admitted under the step of its time, so the table is
    # only required to be continuous up to the largest step that was in force)
    step = max(step or 0.0, seq.system.max_slew * seq.system.grad_raster_time)
    prev = {'x': 0.0, 'y': 0.0, 'z': 0.0}
    for n, i in enumerate(seq.block_events.keys()):
        b = seq.get_block(i)
        for ch in 'xyz':
            g = getattr(b, 'g' + ch)
            first, last = (float(g.first), float(g.last)) if (g is not None and g.type == 'grad') else (0.0, 0.0)
            if abs(prev[ch] - first) > step * (1 + 1e-9):
                return 'block %d channel %s starts at %g, previous block ended at %g' % (i, ch, first, prev[ch])
            if g is not None and g.type == 'grad':
                if abs(first) > step and g.delay > 1e-9:
                    return 'block %d channel %s starts at %g with delay %g' % (i, ch, first, g.delay)
                end = g.delay + math.ceil(g.tt[-1] / seq.grad_raster_time - 1e-10) * seq.grad_raster_time
                if abs(last) > step and abs(end - b.block_duration) > 1e-7:
                    return 'block %d channel %s ends at %g at t=%g inside a block of %g' % (i, ch, last, end, b.block_duration)
            prev[ch] = last
    return None


def gen_walk_history(rng):
    """a walk over a small alphabet of extended gradients between a few levels (so that library ids recur and first-seen
    events follow re-used ones), written and read back; the loaded object must then accept every block's own events again"""
    import pypulseq as pp
    system = H.mk_system(rng, rng.choice([0, 0, 1]))
    pool = H.Pool(rng, system)
    tw = H.Twin(system)
    kinds, diffs, edges, added = [], [], {}, {}
    chans = rng.sample('xyz', rng.choice([1, 1, 2]))
    levels = [0.0] + rng.sample(LEVELS[1:], rng.choice([1, 2]))
    block_len = rng.choice([6e-4, 8e-4, 1e-3])
    alphabet = {}
    at = {ch: 0.0 for ch in chans}
    for _ in range(rng.randint(4, 10)):
        evs = []
        for ch in chans:
            to = rng.choice(levels)
            if at[ch] == 0.0 and to == 0.0 and rng.random() < 0.5:
                continue
            key = (ch, at[ch], to)
            if key not in alphabet:
                alphabet[key] = pool.ext(ch, at[ch], to, dur=block_len)
            evs.append(alphabet[key])
            at[ch] = to
        for ch in chans:
            if not any(e.channel == ch for e in evs):
                at[ch] = 0.0
        evs.append(pp.make_delay(block_len))
        i = tw.on.next_free_block_ID
        exp = expected(tw.off, i, evs, edges)
        rec = tw.add([strip_ids(e) for e in evs])
        got = None if rec['outcome'][0] == 'ok' else rec['outcome'][1]
        kinds.append('add' + (':' + got if got else ''))
        if (exp is None) != (got is None):
            diffs.append({'op': len(kinds) - 1, 'kind': 'add', 'index': i, 'expected': exp or 'accept', 'got': got or 'accept',
                          'events': [brief(e) for e in evs]})
        if got is None:
            edges[i] = edges_of_events(evs)
            added[i] = [strip_ids(e) for e in evs]
        else:
            break
    if added:
        tw.write_read(do_read=True)
        kinds.append('read')
        for b in list(tw.on.block_events.keys()):
            if b not in added:
                continue
            evs = [strip_ids(e) for e in added[b]]
            if expected(tw.off, b, evs, edges) is not None:
                continue
            rec = tw.set(b, evs)
            got = None if rec['outcome'][0] == 'ok' else rec['outcome'][1]
            kinds.append('reset-after-read' + (':' + got if got else ''))
            if got is not None:
                diffs.append({'op': len(kinds) - 1, 'kind': 'set-after-read', 'index': b, 'expected': 'accept', 'got': got,
                              'events': [brief(e) for e in evs]})
    kinds.append('walk')
    return tw, kinds, diffs


def gen_history(rng, tier):
    import pypulseq as pp
    if rng.random() < 0.12:
        return gen_walk_history(rng)
    n_ops = rng.randint(2, 14)
    system = H.mk_system(rng, rng.choice([0, 0, 1]))
    pool = H.Pool(rng, system)
    tw = H.Twin(system)
    prev_last = [0.0, 0.0, 0.0]
    kinds, diffs = [], []
    edges = {}            # block id -> channel -> (first, last) of the gradient the caller added there
    added = {}            # block id -> the events the caller stored there (kept in step with flips)
    seen = []             # every accepted event list, as passed (re-used later: same library ids recur, also after a flip)
    for _ in range(n_ops):
        ids = list(tw.on.block_events.keys())
        r = rng.random()
        special = rng.random()
        if ids and special < 0.07 and getattr(tw, 'max_step', 0.0) <= 1.4e5:
            # (not after a system whose slew step is as large as the level differences was in force: blocks may then
            # legally meet with a jump, and the reader's per-id reconstruction of first/last is no longer determined by
            # the file -- see the note at the re-store probes below)
            # write + read of the sequence's own file: the store (and the edge values the reader reconstructs) replace
            # what was built; the history continues on the loaded object
            tw.write_read(do_read=True)
            kinds.append('read')
            # the loaded object must accept again what the caller had stored: overwrite up to four blocks with their own
            # events (only where the block and its neighbours carry no raster gradient, whose last value the reader can only
            # extrapolate); the reader's reconstruction of first/last is what the neighbour checks now read
            ids_r = list(tw.on.block_events.keys())
            cand = [b for b in ids_r if b in added and all(no_raster(added.get(ids_r[q]))
                                                          for q in range(max(0, ids_r.index(b) - 1), min(len(ids_r), ids_r.index(b) + 2)))]
            rng.shuffle(cand)
            for b in cand[:4]:
                evs = [strip_ids(e) for e in added[b]]
                try:
                    exp = expected(tw.off, b, evs, edges)
                except Exception as e:  # noqa: BLE001
                    exp = 'oracle-error:%r' % (e,)
                if exp is not None:
                    continue
                rec = tw.set(b, evs)
                got = None if rec['outcome'][0] == 'ok' else rec['outcome'][1]
                kinds.append('reset-after-read' + (':' + got if got else ''))
                if got is not None:
                    diffs.append({'op': len(kinds) - 1, 'kind': 'set-after-read', 'index': b, 'expected': 'accept', 'got': got,
                                  'events': [brief(e) for e in evs]})
            edges = {}
            added = {}
            ids2 = list(tw.on.block_events.keys())
            if ids2:
                ev = tw.on.block_events[ids2[-1]]
                gl = tw.on.grad_library
                prev_last = [float(gl.data[ev[2 + c]][5]) if ev[2 + c] and gl.type.get(ev[2 + c]) == 'g' and len(gl.data[ev[2 + c]]) > 5
                             else 0.0 for c in range(3)]
            continue
        if ids and special < 0.10:
            # another system object is assigned: the slew-step threshold must follow it
            other = H.mk_system(rng, 1)
            if rng.random() < 0.6:
                # slew steps on either side of the level differences the blocks use (2e5 .. 7e5): what was a jump becomes a
                # legal continuation and vice versa, so a threshold remembered from construction time shows
                other.max_slew = rng.choice([600, 1200, 2000, 50]) * other.gamma
            tw.max_step = max(getattr(tw, 'max_step', 0.0), tw.on.system.max_slew * tw.on.system.grad_raster_time,
                              other.max_slew * other.grad_raster_time)
            for s_ in (tw.on, tw.off):
                s_.system = other
            tw._record('system', 'load ' + sm.core_tokens(tw.on), [('ok', None), ('ok', None)])
            kinds.append('system')
            continue
        if ids and special < 0.13:
            # flip one axis of everything stored so far (library rows rewritten in place); what the caller "added" is
            # now the negated events
            ax = rng.choice('xyz')
            res = tw._both(lambda s_: s_.flip_grad_axis(ax))
            if res[0][0] != 'ok' or res[1][0] != 'ok':
                # refused (an id shared between axes): nothing was changed, nothing to replay on the model
                kinds.append('flip:raised')
                if res[0][0] != res[1][0]:
                    diffs.append({'op': len(kinds) - 1, 'kind': 'flip', 'expected': 'same outcome with cache on and off',
                                  'got': [res[0][0], res[1][0]], 'index': 0, 'events': []})
                continue
            tw._record('flip', 'load ' + sm.core_tokens(tw.on), res)
            kinds.append('flip')
            for b in edges:
                if ax in edges[b]:
                    f, l = edges[b][ax]
                    edges[b][ax] = (-f, -l)
            for b in added:
                added[b] = [pp.scale_grad(e, -1.0) if getattr(e, 'type', None) in ('trap', 'grad') and e.channel == ax else e
                            for e in added[b]]
            prev_last['xyz'.index(ax)] = -prev_last['xyz'.index(ax)]
            continue
        if r < 0.62 or not ids:
            evs = gen_block(rng, pool, prev_last)
            i = tw.on.next_free_block_ID
            kind = 'add'
        elif r < 0.9:
            i = rng.choice([ids[0], ids[-1], rng.choice(ids)])
            p = ids.index(i)
            # continue from the block before i
            pl = [0.0, 0.0, 0.0]
            if p > 0 and ids[p - 1] in edges:
                pl = [float(edges[ids[p - 1]].get(ch, (0, 0))[1]) for ch in 'xyz']
            elif p > 0:
                ev = tw.on.block_events[ids[p - 1]]
                gl = tw.on.grad_library
                pl = [float(gl.data[ev[2 + c]][5]) if ev[2 + c] and gl.type[ev[2 + c]] == 'g' else 0.0 for c in range(3)]
            evs = gen_block(rng, pool, pl)
            kind = 'set'
        elif r < 0.93 or not [j for j in range(1, max(ids)) if j not in ids]:
            i = tw.on.next_free_block_ID + rng.choice([1, 2, 5])
            evs = gen_block(rng, pool, prev_last)
            kind = 'setgap'
        else:
            # an unused number BELOW the highest one: the block is new, so it is appended behind the last block in play
            # order (numbering and play order now disagree), and it must continue from that last block
            i = rng.choice([j for j in range(1, max(ids)) if j not in ids])
            evs = gen_block(rng, pool, prev_last)
            kind = 'setlow'
        if seen and rng.random() < 0.18:
            # the very events of an earlier call again (preferably ones that continue from where the sequence stands):
            # their library entries are found again, also when a flip has rewritten those entries in the meantime
            want = pl if kind == 'set' else prev_last
            fit = [e_ for e_ in seen if all(float(edges_of_events(e_).get(ch, (0, 0))[0]) == want[ci]
                                            for ci, ch in enumerate('xyz'))]
            evs = [strip_ids(e) for e in rng.choice(fit if fit and rng.random() < 0.8 else seen)]
            kind_tag = 'reuse'
        else:
            kind_tag = None
        if rng.random() < 0.2:
            evs = grads_by_id(tw, evs)
        try:
            exp = expected(tw.off, i, evs, edges)
        except Exception as e:  # noqa: BLE001
            exp = 'oracle-error:%r' % (e,)
        rec = tw.add(evs) if kind == 'add' else tw.set(i, evs)
        got = None if rec['outcome'][0] == 'ok' else rec['outcome'][1]
        kinds.append(kind + (':' + got if got else ''))
        if (exp is None) != (got is None) or (exp is not None and got is not None and exp != got and exp != 'multiple'
                                              and not got.startswith('other')):
            # class of the first violated rule may legitimately differ only if both are rule violations
            if (exp is None) != (got is None):
                diffs.append({'op': len(kinds) - 1, 'kind': kind, 'index': i, 'expected': exp or 'accept', 'got': got or 'accept',
                              'events': [brief(e) for e in evs]})
        if kind_tag:
            kinds.append('reused-events')
        if got is None:
            edges[i] = edges_of_events(evs)
            added[i] = [strip_ids(e) for e in evs]
            seen.append(added[i])
            last_id = list(tw.on.block_events.keys())[-1]
            if last_id == i:
                # where the sequence stands is what the caller added (not what the store says)
                prev_last = [float(edges[i].get(ch, (0, 0))[1]) for ch in 'xyz']
    return tw, kinds, diffs


def strip_ids(e):
    e2 = copy.deepcopy(e)
    for a in ('id', 'shape_IDs'):
        if hasattr(e2, a):
            delattr(e2, a)
    return e2


def no_raster(evs):
    """no raster-sampled (regularly timed) arbitrary gradient among the events (None: nothing known -> False)"""
    if evs is None:
        return False
    for e in evs:
        if getattr(e, 'type', None) == 'grad':
            tt = np.asarray(e.tt) / H.RASTER - 0.5
            if len(tt) > 3 and np.allclose(tt, np.arange(len(tt)), atol=1e-6):
                return False
    return True


def grads_by_id(tw, evs):
    """pre-register the arbitrary / extended gradients of a block (on both twins, recorded as register operations) and
    pass them through the returned ids, as `g.id, g.shape_IDs = seq.register_grad_event(g)` does"""
    out = []
    for e in evs:
        if getattr(e, 'type', None) == 'grad':
            rec = tw.register(e)
            if rec['outcome'][0] == 'ok':
                v = rec['outcome'][1]
                e2 = copy.deepcopy(e)
                e2.id = int(v[0])
                e2.shape_IDs = [int(x) for x in v[1]]
                out.append(e2)
                continue
        out.append(e)
    return out


def brief(e):
    t = getattr(e, 'type', None)
    if t == 'grad':
        return {'type': 'grad', 'ch': e.channel, 'first': float(e.first), 'last': float(e.last), 'delay': float(e.delay),
                'tt0': float(e.tt[0]), 'ttN': float(e.tt[-1])}
    if t == 'trap':
        return {'type': 'trap', 'ch': e.channel, 'delay': float(e.delay),
                'len': float(e.rise_time + e.flat_time + e.fall_time)}
    if t == 'delay':
        return {'type': 'delay', 'delay': float(e.delay)}
    return {'type': str(t)}


def run_one(ctx, rng, n, tag):
    tw, kinds, diffs = gen_history(rng, ctx.tier)
    case = {'rng_stream': tag, 'history_index': n, 'kinds': kinds, 'seed': ctx.seed, 'tier': ctx.tier}
    nz = any(abs(v) > 0 for lib in [tw.on.grad_library] for k, v in lib.data.items() if lib.type[k] == 'g' for v in v[4:6])
    ctx.evaluated((tag, n, tw.model_line()[:3000]), nontrivial=nz)
    for k in kinds:
        ctx.count('op.' + k.split(':')[0])
        ctx.count('outcome.' + (k.split(':')[1] if ':' in k else 'accept'))
    for d in diffs[:1]:
        sig = 'C05/accepts-invalid' if d['got'] == 'accept' else 'C05/rejects-valid'
        ctx.fail(sig, case, d)
    try:
        c = continuity_of_table(tw.off, getattr(tw, 'max_step', None))
    except Exception as e:  # noqa: BLE001
        c = None
        ctx.count('oracle.table_decode_error')
    if c:
        ctx.fail('C05/discontinuous-table', case, {'what': c})
    if n % 80 == 0:
        ctx.sample({'kinds': kinds, 'blocks': list(tw.on.block_events.keys())})
    return tw, case


def run(ctx):
    n_hist = {'quick': 700, 'thorough': 8000}[ctx.tier]
    rng = ctx.rng('histories')
    batch = []
    for n in range(n_hist):
        if ctx.out_of_time():
            ctx.notes.append('time budget reached after %d histories' % n)
            break
        tw, case = run_one(ctx, rng, n, 'histories')
        if ctx.model_available:
            batch.append((tw, case))
        if len(batch) >= 50:
            flush(ctx, batch)
            batch = []
    if batch:
        flush(ctx, batch)


def flush(ctx, batch):
    outs = ctx.model([tw.model_line() for tw, _ in batch])
    for (tw, case), o in zip(batch, outs):
        for d in H.compare_with_model(tw, o):
            ctx.mismatch('history', case, d)


def replay(ctx, case):
    rng = ctx.rng(case.get('rng_stream', 'histories'))
    res = None
    for n in range(case['history_index'] + 1):
        tw, kinds, diffs = gen_history(rng, case.get('tier', 'quick'))
    for d in diffs[:1]:
        ctx.fail('C05/accepts-invalid' if d['got'] == 'accept' else 'C05/rejects-valid', case, d)
    c = continuity_of_table(tw.off, getattr(tw, 'max_step', None))
    if c:
        ctx.fail('C05/discontinuous-table', case, {'what': c})
    return {'kinds': kinds, 'accept_reject_diffs': diffs[:3], 'table': c}
