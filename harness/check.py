"""check.py — entry point:  ./check <Cxx> [--tier quick|thorough] [--replay <file>]

Decision procedure (DESIGN.md section 4):
  oracle failure (property predicate false on the implementation's own output)
        -> VIOLATION (or KNOWN-FINDING when the signature is listed in known_findings.json)
  proof obligation no longer checks / translator fails closed / correspondence mismatch
        -> search for a failing input with the thorough-size generator + oracle;
           found -> VIOLATION with that input;  not found -> VIOLATION ... no-failing-input-found
"""
import argparse
import importlib
import json
import os
import sys
import time
import traceback

HERE = os.path.dirname(os.path.abspath(__file__))
sys.path.insert(0, HERE)
import common  # noqa: E402
from common import Ctx  # noqa: E402


def main():
    ap = argparse.ArgumentParser()
    ap.add_argument('prop')
    ap.add_argument('--tier', default=os.environ.get('VERIF_TIER', 'quick'))
    ap.add_argument('--replay', default=None)
    ap.add_argument('--no-build', action='store_true')
    args = ap.parse_args()
    tier = args.tier if args.tier in ('quick', 'thorough') else 'quick'
    try:
        seed = int(os.environ.get('VERIF_SEED', '0'))
    except ValueError:
        seed = 0
    common.pin_env()
    pid = args.prop
    mod = importlib.import_module('props.' + pid)
    t0 = time.time()
    bkw = dict(extract_targets=tuple(getattr(mod, 'EXTRACT_TARGETS', ('Extract/Extract.vo',))),
               runners=tuple(getattr(mod, 'RUNNERS', (getattr(mod, 'RUNNER', common.DEFAULT_RUNNER),))),
               need_model=getattr(mod, 'NEED_MODEL', True))

    if args.replay:
        case = json.load(open(args.replay))
        br = common.build(pid, mod.GEN_SECTIONS, mod.COQ_TARGETS, **bkw) if not args.no_build else None
        ctx = Ctx(pid, 'quick', seed)
        ctx.runner = getattr(mod, 'RUNNER', common.DEFAULT_RUNNER)
        ctx.model_available = bool(br and br.model_ok)
        if 'case' in case and case.get('kind') == 'oracle':
            res = mod.replay(ctx, case['case'])
            print(json.dumps(common.jsonable(res), indent=1))
            fails = [f for f in ctx.failures]
            print('replay: %d oracle failure(s), %d mismatch(es)' % (len(fails), len(ctx.mismatches)))
            for f in fails:
                print('  FAIL', f['signature'], json.dumps(f['detail'])[:400])
            sys.exit(1 if fails or ctx.mismatches else 0)
        else:
            print(json.dumps(case, indent=1)[:4000])
            print('replay: this file names a proof obligation / correspondence stream that no longer checks;')
            print('        re-run ./check %s to re-evaluate it on the current tree' % pid)
            ok = br is not None and br.proof_ok and br.model_ok
            sys.exit(0 if ok else 1)

    # 1+2: translate, prove, build the model runner
    br = common.build(pid, mod.GEN_SECTIONS, mod.COQ_TARGETS, **bkw)
    run_tier = tier
    budget_s = getattr(mod, 'BUDGET', {}).get(tier)
    if br.source_changed and tier == 'quick':
        # the source of a region the hand-written model transcribes was edited: the tie between model and
        # code is the correspondence, so it is re-established at thorough size (time-boxed) before trusting it
        run_tier = 'thorough'
        budget_s = getattr(mod, 'ESCALATE_BUDGET', 420)
    chk = None
    if tier == 'thorough' and br.proof_ok:
        chk = common.run_coqchk(mod.COQ_TARGETS)
        if not chk['ok']:
            br.proof_ok = False
            br.proof_log += '\ncoqchk: ' + chk['log']
    ctx = Ctx(pid, run_tier, seed, budget_s=budget_s)
    ctx.escalated = bool(br.source_changed)
    ctx.runner = getattr(mod, 'RUNNER', common.DEFAULT_RUNNER)
    ctx.model_available = br.model_ok
    # 3+4: correspondence + oracle (with line coverage of the anchored source files)
    cov = common.LineCoverage(pid)
    cov.start()
    run_error = None
    try:
        mod.run(ctx)
    except common.ModelUnavailable as e:
        ctx.model_available = False
        br.model_ok = False
        br.model_log += '\n' + str(e)
        try:
            mod.run(ctx)
        except Exception:
            run_error = traceback.format_exc()
    except Exception:
        run_error = traceback.format_exc()

    cov.stop()
    known = [k for k in common.load_known() if k.get('property') == pid]
    known_sigs = {k['signature']: k for k in known if k.get('status') == 'known'}

    viol_lines = []
    known_lines = []
    new_fail_sigs = {}
    for f in ctx.failures:
        sig = f['signature']
        if sig in known_sigs:
            if sig not in [s for s, _ in known_lines]:
                known_lines.append((sig, known_sigs[sig].get('what', '')))
        else:
            new_fail_sigs.setdefault(sig, f)
    for sig, f in new_fail_sigs.items():
        path = common.write_replay(pid, 'oracle_' + common.stable_hash(sig), {
            'kind': 'oracle', 'property': pid, 'signature': sig, 'case': f['case'], 'detail': f['detail']})
        viol_lines.append('VIOLATION property=%s replay=%s' % (pid, path))

    budget = getattr(mod, 'MISMATCH_BUDGET', 0.0)
    mism_over = len(ctx.mismatches) > budget * max(1, ctx.model_cases)
    broken = []
    if not br.proof_ok:
        broken.append(('proof', br.proof_log))
    if not br.model_ok:
        broken.append(('model-build', br.model_log))
    if mism_over:
        broken.append(('correspondence', json.dumps(ctx.mismatches[:5], default=str)[:4000]))
    if run_error:
        broken.append(('harness-error', run_error[-3000:]))

    searched = 0
    if broken and not viol_lines:
        # search for a concrete failing input: thorough-size generator, oracle only
        sctx = Ctx(pid, 'thorough', seed + 1, budget_s=getattr(mod, 'SEARCH_BUDGET', 240))
        sctx.model_available = False
        sctx.runner = ctx.runner
        try:
            # mismatching cases first
            for m in ctx.mismatches[:50]:
                try:
                    mod.replay(sctx, m['case'])
                except Exception:
                    pass
            mod.run(sctx)
        except Exception:
            pass
        searched = sctx.evaluations
        found = {}
        for f in sctx.failures:
            if f['signature'] not in known_sigs:
                found.setdefault(f['signature'], f)
        for sig, f in found.items():
            path = common.write_replay(pid, 'oracle_' + common.stable_hash(sig), {
                'kind': 'oracle', 'property': pid, 'signature': sig, 'case': f['case'], 'detail': f['detail'],
                'found_by': 'search after: ' + ', '.join(b[0] for b in broken)})
            viol_lines.append('VIOLATION property=%s replay=%s' % (pid, path))
        if not found:
            path = common.write_replay(pid, 'unproved', {
                'kind': 'unproved', 'property': pid,
                'no_longer_checks': [{'what': b[0], 'log': b[1]} for b in broken],
                'obligations': br.obligations, 'search_evaluations': searched})
            viol_lines.append('VIOLATION property=%s replay=%s no-failing-input-found' % (pid, path))

    wall = time.time() - t0
    n_obl = len(br.obligations)
    ev = {
        'property_id': pid, 'tier': tier, 'seed': seed, 'level': getattr(mod, 'LEVEL', 'proof'),
        'coverage': {
            'obligations': max(1, n_obl),
            'discharged': n_obl if br.proof_ok else 0,
            'checker_cmd': 'make -C coq %s && coqc -Q . PV %s  (Coq 8.16.1, full .vo build; Print Assumptions per theorem)'
                           % (' '.join(mod.COQ_TARGETS), ' '.join(t[:-1] for t in mod.COQ_TARGETS if t.startswith('Props/'))),
            'trusted_base': getattr(mod, 'TRUSTED', []) + [
                'Coq 8.16.1 kernel + vm_compute (no native_compute)',
                'harness/translate.py (fail-closed ast translator) for Gen sections %s' % mod.GEN_SECTIONS,
                'extraction (ExtrOcamlBasic only) + ocaml/io.ml, driver.ml',
                'correspondence/oracle harness: agreement established on the generated cases only'],
            'theorems': br.obligations,
            'assumptions': br.assumptions,
            'coqchk': ({'ok': chk['ok'], 'axioms': chk['axioms'], 'unsafe': chk.get('unsafe', [])} if chk else 'not run (thorough tier only)'),
            'evaluations': ctx.evaluations,
            'distinct_nontrivial': len(ctx.nontrivial),
            'rule': getattr(mod, 'RULE', ''),
            'samples': ctx.samples if ctx.samples else [{'note': 'no case generated'}],
            'traces_validated_against_impl': ctx.model_cases,
            'correspondence_mismatches': len(ctx.mismatches),
            'benign_divergences': len(ctx.benign),
            'benign_examples': ctx.benign[:3],
            'distribution': ctx.dist,
            'search_evaluations': searched,
            'proof_ok': br.proof_ok, 'model_ok': br.model_ok,
            'translate_errors': br.translate_errors,
            'source_changed_since_transcription': br.source_changed,
            'escalated_to_thorough_correspondence': ctx.escalated,
            'build_wall_s': round(br.wall, 2),
            'known_findings_reproduced': [s for s, _ in known_lines],
            'notes': ctx.notes,
            'anchored_source_line_coverage': cov.report(),
        },
        'assumptions': getattr(mod, 'ASSUMPTIONS', []),
        'wall_s': round(wall, 2),
        'violations': len(viol_lines),
    }
    common.write_evidence(pid, ev)

    for sig, what in known_lines:
        print('KNOWN-FINDING: property=%s %s [%s]' % (pid, what, sig))
    for line in viol_lines:
        print(line)
    print('%s tier=%s seed=%d evaluations=%d model_cases=%d mismatches=%d benign=%d obligations=%d/%d wall=%.1fs %s'
          % (pid, tier, seed, ctx.evaluations, ctx.model_cases, len(ctx.mismatches), len(ctx.benign),
             ev['coverage']['discharged'], n_obl, wall, 'FAIL' if viol_lines else 'ok'))
    if broken:
        for b in broken:
            print('  no longer checks: %s\n    %s' % (b[0], b[1][-1500:].replace('\n', '\n    ')))
    sys.exit(1 if viol_lines else 0)


if __name__ == '__main__':
    main()
