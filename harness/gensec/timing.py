"""gensec/timing.py — translator plug-in for C10 / C07.

Reads, with `ast` only and fail-closed, from the CURRENT source:
  check_timing.py   the divisibility test (rounding call, comparison, tolerance), the raster chosen per event
                    type, the per-event check groups (which attribute is tested against which raster, the
                    negative-delay test), the block-duration / mismatch tests, the RF and ADC dead-time tests as
                    signed linear expressions, the error kinds and fields they report;
  calc_duration.py  the per-event-type end-time expressions (as attribute sums);
  Sequence/block.py the per-event-type end-time expressions accumulated by set_block (and the `1e-10` ceil guard);
  Sequence/write_seq.py the [BLOCKS] duration column: round(dur / block_duration_raster) and its assertion;
  Sequence/sequence.py the TotalDuration definition and the `curr_dur` accumulation of every timeline consumer
                    (exact statement patterns), plus fingerprints of those functions.
Emits coq/Gen/GenTiming.v in the vocabulary of Model/TimingSyntax.v."""
import ast

from translate import (parse, func, method, assign_value, const_num, coq_Q, unparse, strip_doc, HEADER,
                       TranslateError, CONSTS)

ATTRS = {'delay': 'A_delay', 'shape_dur': 'A_shape_dur', 'ringdown_time': 'A_ringdown_time',
         'dead_time': 'A_dead_time', 'rise_time': 'A_rise_time', 'flat_time': 'A_flat_time',
         'fall_time': 'A_fall_time', 'duration': 'A_duration', 'dwell': 'A_dwell'}
RASTERS = {'block_duration_raster': 'RBlock', 'rf_raster_time': 'RRf', 'grad_raster_time': 'RGrad',
           'adc_raster_time': 'RAdc'}
KINDS = {'rf': 'KRf', 'grad': 'KGrad', 'trap': 'KTrap', 'adc': 'KAdc', 'delay': 'KDelay', 'output': 'KTrig',
         'trigger': 'KTrig', 'labelset': 'KLabel', 'labelinc': 'KLabel'}
ALL_KINDS = ['KRf', 'KGrad', 'KTrap', 'KAdc', 'KDelay', 'KTrig', 'KLabel']
CMPS = {ast.Lt: 'CLt', ast.LtE: 'CLe', ast.Gt: 'CGt', ast.GtE: 'CGe'}
ERRKINDS = ['RASTER', 'NEGATIVE_DELAY', 'BLOCK_DURATION_MISMATCH', 'RF_DEAD_TIME', 'RF_RINGDOWN_TIME',
            'ADC_DEAD_TIME', 'POST_ADC_DEAD_TIME']
EPS_EXPR = '10 ** np.floor(np.log10(np.spacing(1000000.0) * 10))'


def fail(msg):
    raise TranslateError('timing: ' + msg)


def attr_of(name):
    if name not in ATTRS:
        fail('unknown timing attribute %r' % name)
    return ATTRS[name]


def is_ev_attr(node, prefixes):
    """node is <prefix>.<attr> with unparse(prefix) in prefixes -> attr name"""
    if isinstance(node, ast.Attribute) and unparse(node.value) in prefixes:
        return node.attr
    return None


def lin_of(node, prefixes, env=None, sign=True):
    """signed term list of a +/- expression"""
    env = env or {}
    if isinstance(node, ast.BinOp) and isinstance(node.op, (ast.Add, ast.Sub)):
        return lin_of(node.left, prefixes, env, sign) + \
            lin_of(node.right, prefixes, env, sign if isinstance(node.op, ast.Add) else not sign)
    if isinstance(node, ast.UnaryOp) and isinstance(node.op, ast.USub):
        return lin_of(node.operand, prefixes, env, not sign)
    s = unparse(node)
    if isinstance(node, ast.Name):
        if node.id == 'eps':
            return [(sign, 'TEps')]
        if node.id == 'duration':
            return [(sign, 'TDur')]
        if node.id in env:
            return lin_of(env[node.id], prefixes, env, sign)
        fail('unknown name %s in timing expression' % node.id)
    if s == 'seq.block_durations[block_counter]':
        return [(sign, 'TStored')]
    if s == 'seq.system.adc_dead_time':
        return [(sign, 'TSysAdcDead')]
    if isinstance(node, ast.BinOp) and isinstance(node.op, ast.Mult):
        l, r = is_ev_attr(node.left, prefixes), is_ev_attr(node.right, prefixes)
        if {l, r} == {'num_samples', 'dwell'} and unparse(node.left.value) == unparse(node.right.value):
            return [(sign, 'TAttr A_samples_dwell')]
        fail('unsupported product %s' % s)
    if isinstance(node, ast.Subscript) and unparse(node.slice) == '-1':
        a = is_ev_attr(node.value, prefixes)
        if a in ('t', 'tt'):
            return [(sign, 'TAttr A_t_last')]
    a = is_ev_attr(node, prefixes)
    if a is not None:
        return [(sign, 'TAttr ' + attr_of(a))]
    fail('unsupported term %s' % s)


def coq_lin(l):
    return '[' + '; '.join('(%s, %s)' % ('true' if s else 'false', t) for s, t in l) + ']'


def lintest_of(test, prefixes, env=None):
    if not (isinstance(test, ast.Compare) and len(test.ops) == 1 and type(test.ops[0]) in CMPS):
        fail('comparison expected, found %s' % unparse(test))
    left, absf = test.left, False
    if isinstance(left, ast.Call) and unparse(left.func) == 'abs' and len(left.args) == 1:
        left, absf = left.args[0], True
    return '{| lt_abs := %s; lt_lhs := %s; lt_cmp := %s; lt_rhs := %s |}' % (
        'true' if absf else 'false', coq_lin(lin_of(left, prefixes, env)), CMPS[type(test.ops[0])],
        coq_lin(lin_of(test.comparators[0], prefixes, env)))


def append_kw(stmts):
    """the keywords of the single `error_report.append(SimpleNamespace(...))` among stmts"""
    found = []
    for st in stmts:
        if isinstance(st, ast.Expr) and isinstance(st.value, ast.Call) and unparse(st.value.func) == 'error_report.append':
            c = st.value.args[0]
            if not (isinstance(c, ast.Call) and unparse(c.func) == 'SimpleNamespace'):
                fail('error_report.append of something else than SimpleNamespace')
            found.append({k.arg: k.value for k in c.keywords})
    if len(found) != 1:
        fail('expected exactly one error_report.append, found %d' % len(found))
    return found[0]


def kw_str(kw, name):
    v = kw.get(name)
    if not (isinstance(v, ast.Constant) and isinstance(v.value, str)):
        fail('keyword %s is not a string literal' % name)
    return v.value


def raster_of(node):
    s = unparse(node)
    if s.startswith('seq.system.') and s[len('seq.system.'):] in RASTERS:
        return RASTERS[s[len('seq.system.'):]]
    fail('unknown raster expression %s' % s)


def type_test(test, var):
    """`hasattr(var,'type') and var.type == 'K'`, `var.type == 'K'`, `A or B`, `var.type in [..]` -> list of kind strings"""
    if isinstance(test, ast.BoolOp) and isinstance(test.op, ast.And) and len(test.values) == 2 \
            and unparse(test.values[0]) == "hasattr(%s, 'type')" % var:
        return type_test(test.values[1], var)
    if isinstance(test, ast.BoolOp) and isinstance(test.op, ast.Or):
        return sum((type_test(v, var) for v in test.values), [])
    if isinstance(test, ast.Compare) and len(test.ops) == 1 and unparse(test.left) == var + '.type':
        c = test.comparators[0]
        if isinstance(test.ops[0], ast.Eq) and isinstance(c, ast.Constant) and isinstance(c.value, str):
            return [c.value]
        if isinstance(test.ops[0], ast.In) and isinstance(c, (ast.List, ast.Tuple)):
            return [e.value for e in c.elts]
    fail('unsupported event-type test %s' % unparse(test))


def chain(ifnode):
    """if/elif/else chain -> [(test or None, body)]"""
    out = []
    n = ifnode
    while True:
        out.append((n.test, n.body))
        if len(n.orelse) == 1 and isinstance(n.orelse[0], ast.If):
            n = n.orelse[0]
        else:
            if n.orelse:
                out.append((None, n.orelse))
            return out


# ------------------------------------------------------------------------------------------------
def read_check_timing():
    tree, _ = parse('check_timing.py')
    fn = func(tree, 'check_timing')
    dc = func(fn, 'div_check')
    if [a.arg for a in dc.args.args[:2]] != ['a', 'b']:
        fail('div_check signature changed')
    if unparse(assign_value(dc, 'c')) != 'a / b' or unparse(assign_value(dc, 'c_rounded')) != 'round(c)':
        fail('div_check: `c = a / b; c_rounded = round(c)` expected')
    ok = assign_value(dc, 'is_ok')
    if not (isinstance(ok, ast.Compare) and unparse(ok.left) == 'abs(c - c_rounded)' and len(ok.ops) == 1
            and type(ok.ops[0]) in CMPS):
        fail('div_check: `is_ok = abs(c - c_rounded) <cmp> tol` expected')
    res = {'div_cmp': CMPS[type(ok.ops[0])], 'div_tol': const_num(ok.comparators[0])}
    body = strip_doc(dc)
    last = body[-1]
    if not (isinstance(last, ast.If) and unparse(last.test) == 'not is_ok' and not last.orelse):
        fail('div_check: `if not is_ok:` report expected')
    kw = append_kw(last.body)
    if kw_str(kw, 'error_type') != 'RASTER' or unparse(kw['event']) != 'event' or unparse(kw['field']) != 'field' \
            or unparse(kw['block']) != 'block_counter':
        fail('div_check: report fields changed')

    loops = [st for st in strip_doc(fn) if isinstance(st, ast.For)]
    if len(loops) != 1 or unparse(loops[0].iter) != 'seq.block_events' or unparse(loops[0].target) != 'block_counter':
        fail('loop over seq.block_events not found')
    lb = loops[0].body
    pos = 0

    def expect(pred, what):
        nonlocal pos
        if pos >= len(lb) or not pred(lb[pos]):
            fail('block loop: expected %s at statement %d, found `%s`' % (
                what, pos, unparse(lb[pos])[:60] if pos < len(lb) else 'end'))
        pos += 1
        return lb[pos - 1]

    expect(lambda s: unparse(s) == 'block = seq.get_block(block_counter)', 'get_block')
    expect(lambda s: unparse(s) == 'duration = calc_duration(block)', 'duration = calc_duration(block)')
    st = expect(lambda s: isinstance(s, ast.Expr) and isinstance(s.value, ast.Call) and unparse(s.value.func) == 'div_check',
                'div_check of the block duration')
    c = st.value
    # which value is tested against the block raster: the local `duration` (= calc_duration(block)) or the stored one
    bd = lin_of(c.args[0], ())
    if bd not in ([(True, 'TDur')], [(True, 'TStored')]):
        fail('block duration div_check is on neither `duration` nor the stored duration: %s' % unparse(c.args[0]))
    res['block_dur_term'] = bd[0][1]
    kws = {k.arg: k.value for k in c.keywords}
    if kw_str(kws, 'event') != 'block' or kw_str(kws, 'field') != 'duration':
        fail('block duration div_check reports a different event/field')
    res['block_raster'] = raster_of(c.args[1])
    st = expect(lambda s: isinstance(s, ast.If) and not s.orelse, 'mismatch test')
    kw = append_kw(st.body)
    if kw_str(kw, 'error_type') != 'BLOCK_DURATION_MISMATCH' or kw_str(kw, 'event') != 'block' or kw_str(kw, 'field') != 'duration':
        fail('mismatch report changed')
    if unparse(st.body[-1]) != 'duration = seq.block_durations[block_counter]':
        fail('mismatch branch no longer resets `duration` to the stored value')
    res['mismatch'] = lintest_of(st.test, ())
    ev = expect(lambda s: isinstance(s, ast.For) and unparse(s.iter) == 'block.__dict__.items()'
                and unparse(s.target) == '(event, e)', 'loop over block.__dict__.items()')
    rfif = expect(lambda s: isinstance(s, ast.If) and unparse(s.test) == 'block.rf is not None' and not s.orelse, 'rf tests')
    adcif = expect(lambda s: isinstance(s, ast.If) and unparse(s.test) == 'block.adc is not None' and not s.orelse, 'adc tests')
    if pos != len(lb):
        fail('unexpected extra statements in the block loop')

    # --- loop over the events of a block
    eb = ev.body
    if len(eb) < 3:
        fail('event loop too short')
    t0 = eb[0]
    if not (isinstance(t0, ast.If) and unparse(t0.test) == 'e is None or isinstance(e, (float, int))'
            and unparse(t0.body[0]) == 'continue'):
        fail('event loop: skip of None / block_duration changed')
    t1 = eb[1]
    if not (isinstance(t1, ast.If) and unparse(t1.test) == 'isinstance(e, list) and len(e) > 1' and unparse(t1.body[-1]) == 'continue'):
        fail('event loop: extension-list skip changed')
    rc = eb[2]
    if not (isinstance(rc, ast.If) and isinstance(rc.body[0], ast.Assign) and unparse(rc.body[0].targets[0]) == 'raster'):
        fail('event loop: raster selection chain not found')
    kr, default = {}, None
    for test, body in chain(rc):
        val = None
        for s in body:
            if isinstance(s, ast.Assign) and unparse(s.targets[0]) == 'raster':
                val = raster_of(s.value)
        if val is None:
            fail('raster chain branch without `raster = ...`')
        if test is None:
            default = val
        else:
            for k in type_test(test, 'e'):
                kr[KINDS[k]] = val
    if default is None:
        fail('raster chain has no else branch')
    res['kind_raster'] = (kr, default)
    groups = []
    for st in eb[3:]:
        if not (isinstance(st, ast.If) and not st.orelse):
            fail('event loop: unexpected statement `%s`' % unparse(st)[:60])
        t = st.test
        if isinstance(t, ast.Call) and unparse(t.func) == 'hasattr' and unparse(t.args[0]) == 'e' \
                and isinstance(t.args[1], ast.Constant):
            g = 'GHas ' + attr_of(t.args[1].value)
        else:
            ks = type_test(t, 'e')
            if len(ks) != 1:
                fail('event loop: group guard with several types')
            g = 'GKind ' + KINDS[ks[0]]
        checks = []
        for s in st.body:
            if isinstance(s, ast.If) and not s.orelse:
                kw = append_kw(s.body)
                if kw_str(kw, 'error_type') != 'NEGATIVE_DELAY' or unparse(kw['event']) != 'event':
                    fail('unexpected report inside an event group')
                checks.append('CNeg %s %s' % (attr_of(kw_str(kw, 'field')), lintest_of(s.test, ('e',))))
            elif isinstance(s, ast.Expr) and isinstance(s.value, ast.Call) and unparse(s.value.func) == 'div_check':
                c = s.value
                a = is_ev_attr(c.args[0], ('e',))
                kws = {k.arg: k.value for k in c.keywords}
                if a is None or unparse(kws.get('event')) != 'event' or kw_str(kws, 'field') != a:
                    fail('div_check on %s reports a different field' % unparse(c.args[0]))
                r = 'None' if unparse(c.args[1]) == 'raster' else 'Some ' + raster_of(c.args[1])
                checks.append('CDiv %s (%s)' % (attr_of(a), r))
            else:
                fail('event loop: unexpected statement in group `%s`' % unparse(s)[:60])
        groups.append((g, checks))
    res['groups'] = groups

    def dead_tests(ifn, slot, prefix):
        env, out = {}, []
        for s in ifn.body:
            if isinstance(s, ast.Assign) and isinstance(s.targets[0], ast.Name):
                env[s.targets[0].id] = s.value
            elif isinstance(s, ast.If) and not s.orelse:
                kw = append_kw(s.body)
                if kw_str(kw, 'event') != slot:
                    fail('%s test reports event %s' % (slot, kw_str(kw, 'event')))
                et = kw_str(kw, 'error_type')
                if et not in ERRKINDS:
                    fail('unknown error type %s' % et)
                out.append('(%s, %s, %s)' % (lintest_of(s.test, (prefix,), env), attr_of(kw_str(kw, 'field')), et))
            else:
                fail('unexpected statement in the %s tests' % slot)
        return out
    res['rf_tests'] = dead_tests(rfif, 'rf', 'block.rf')
    res['adc_tests'] = dead_tests(adcif, 'adc', 'block.adc')
    ret = strip_doc(fn)[-1]
    if unparse(ret) != 'return (len(error_report) == 0, error_report)':
        fail('return statement changed: %s' % unparse(ret))
    return res


def end_attrs(expr, var):
    l = lin_of(expr, (var,))
    if not all(s for s, _ in l) or not all(t.startswith('TAttr ') for _, t in l):
        fail('end-time expression is not a plain attribute sum: %s' % unparse(expr))
    return [t[len('TAttr '):] for _, t in l]


def max_update(stmts):
    """value E of the unique top-level `duration = max(duration, E)` among stmts (None when absent)"""
    found = []
    for s in stmts:
        if isinstance(s, ast.Assign) and unparse(s.targets[0]) == 'duration':
            v = s.value
            if not (isinstance(v, ast.Call) and unparse(v.func) == 'max' and len(v.args) == 2 and unparse(v.args[0]) == 'duration'):
                fail('duration update is not max(duration, ...): %s' % unparse(s))
            found.append(v.args[1])
    if len(found) > 1:
        fail('several duration updates in one branch')
    return found[0] if found else None


def read_calc_duration():
    tree, _ = parse('calc_duration.py')
    fn = func(tree, 'calc_duration')
    body = strip_doc(fn)
    if unparse(body[0]) != 'events = block_to_events(*args)' or unparse(body[1]) != 'duration = 0' \
            or unparse(body[-1]) != 'return duration':
        fail('calc_duration prologue/epilogue changed')
    loop = body[2]
    if not (isinstance(loop, ast.For) and unparse(loop.iter) == 'events' and unparse(loop.target) == 'event'):
        fail('calc_duration loop not found')
    lb = loop.body
    f0 = lb[0]
    if not (isinstance(f0, ast.If) and unparse(f0.test) == 'isinstance(event, (float, int))'
            and [unparse(s) for s in f0.body] == ['assert duration <= event', 'duration = event', 'continue']):
        fail('calc_duration: block_duration branch changed')
    if not (isinstance(lb[1], ast.If) and isinstance(lb[1].body[0], ast.Raise)):
        fail('calc_duration: type guard changed')
    if len(lb) != 3 or not isinstance(lb[2], ast.If):
        fail('calc_duration: event-type chain not found')
    ends = {}
    for test, b in chain(lb[2]):
        if test is None:
            fail('calc_duration: unexpected else branch')
        e = max_update(b)
        if e is None or len(b) != 1:
            fail('calc_duration: branch without a single max update')
        for k in type_test(test, 'event'):
            kk = KINDS.get(k) or fail('unknown event type %s' % k)
            at = end_attrs(e, 'event')
            if kk in ends and ends[kk] != at:
                fail('two spellings of kind %s with different end times' % kk)
            ends[kk] = at
    return ends


def read_set_block():
    tree, _ = parse('Sequence/block.py')
    fn = func(tree, 'set_block')
    loop = None
    for st in strip_doc(fn):
        if isinstance(st, ast.For) and unparse(st.iter) == 'events':
            loop = st
    if loop is None or len(loop.body) != 1 or not isinstance(loop.body[0], ast.If) \
            or unparse(loop.body[0].test) != 'not isinstance(event, float)':
        fail('set_block: event loop changed')
    top = loop.body[0]
    if [unparse(s) for s in top.orelse] != ['duration = max(duration, event)']:
        fail('set_block: float branch changed')
    if len(top.body) != 1 or not isinstance(top.body[0], ast.If):
        fail('set_block: event-type chain not found')
    ends, special = {}, None
    for test, b in chain(top.body[0]):
        if test is None:
            fail('set_block: unexpected else branch')
        e = max_update(b)
        for k in type_test(test, 'event'):
            kk = KINDS.get(k) or fail('unknown event type %s' % k)
            if e is None:
                ends[kk] = None
            elif unparse(e) == 'grad_duration':
                gd = [s for s in b if isinstance(s, ast.Assign) and unparse(s.targets[0]) == 'grad_duration']
                if len(gd) != 1:
                    fail('grad_duration assignment not found')
                v = gd[0].value
                # event.delay + math.ceil(event.tt[-1] / self.grad_raster_time - G) * self.grad_raster_time
                ok = (isinstance(v, ast.BinOp) and isinstance(v.op, ast.Add) and unparse(v.left) == 'event.delay'
                      and isinstance(v.right, ast.BinOp) and isinstance(v.right.op, ast.Mult)
                      and unparse(v.right.right) == 'self.grad_raster_time'
                      and isinstance(v.right.left, ast.Call) and unparse(v.right.left.func) == 'math.ceil')
                if ok:
                    inner = v.right.left.args[0]
                    ok = isinstance(inner, ast.BinOp) and isinstance(inner.op, ast.Sub) \
                        and unparse(inner.left) == 'event.tt[-1] / self.grad_raster_time'
                if not ok:
                    fail('grad_duration expression changed: %s' % unparse(v))
                special = const_num(inner.right)
                ends[kk] = 'GRAD'
            else:
                ends[kk] = end_attrs(e, 'event')
    if special is None:
        fail('set_block: gradient branch not found')
    st = [s for s in strip_doc(fn) if unparse(s) == 'self.block_durations[block_index] = float(duration)']
    if len(st) != 1:
        fail('set_block: `self.block_durations[block_index] = float(duration)` not found')
    return ends, special


def read_eps():
    tree, _ = parse('__init__.py')
    for st in tree.body:
        if isinstance(st, ast.Assign) and unparse(st.targets[0]) == 'eps':
            if unparse(st.value) != EPS_EXPR:
                fail('definition of pypulseq.eps changed: %s' % unparse(st.value))
            from fractions import Fraction
            return Fraction(1, 10 ** 9)   # 10**floor(log10(spacing(1e6)*10)) for binary64
    fail('pypulseq.eps not found')


def read_write_seq():
    tree, _ = parse('Sequence/write_seq.py')
    fn = func(tree, 'write')
    loop = None
    for n in ast.walk(fn):
        if isinstance(n, ast.For) and unparse(n.iter) == 'self.block_events' and any(
                isinstance(s, ast.Assert) for s in n.body):
            loop = n
    if loop is None:
        fail('write_seq: [BLOCKS] loop not found')
    if unparse(assign_value(loop, 'block_duration')) != 'self.block_durations[block_counter] / self.block_duration_raster' \
            or unparse(assign_value(loop, 'block_duration_rounded')) != 'round(block_duration)':
        fail('write_seq: block duration column changed')
    a = [s for s in loop.body if isinstance(s, ast.Assert)][0].test
    if not (isinstance(a, ast.Compare) and unparse(a.left) == 'abs(block_duration_rounded - block_duration)'
            and type(a.ops[0]) in CMPS):
        fail('write_seq: assertion changed')
    s = unparse(assign_value(loop, 's'))
    if 'block_counter, block_duration_rounded, *self.block_events[block_counter][1:]' not in s:
        fail('write_seq: [BLOCKS] row no longer prints the rounded duration')
    return CMPS[type(a.ops[0])], const_num(a.comparators[0])


SEQ_PATTERNS = {
    'duration': ['event_count += self.block_events[block_counter] > 0', 'duration = 0', 'duration += self.block_durations[block_counter]', 'num_blocks = len(self.block_events)'],
    'adc_times': ['curr_dur = 0', 't = np.cumsum(bd)', 'begin_block = np.searchsorted(t, time_range[0])',
                  "end_block = np.searchsorted(t - bd, time_range[1], side='right')",
                  'blocks = list(self.block_durations.keys())[begin_block:end_block]', 'curr_dur += self.block_durations[block_counter]',
                  't_adc.append((np.arange(block.adc.num_samples) + 0.5) * block.adc.dwell + block.adc.delay + curr_dur)',
                  'curr_dur = t[begin_block] - bd[begin_block]'],
    'rf_times': ['curr_dur = 0', 't = np.cumsum(bd)', 'begin_block = np.searchsorted(t, time_range[0])',
                  "end_block = np.searchsorted(t - bd, time_range[1], side='right')",
                  'blocks = list(self.block_durations.keys())[begin_block:end_block]', 'curr_dur += self.block_durations[block_counter]', 't = rf.delay + calc_rf_center(rf)[0]',
                 't_excitation.append(curr_dur + t)', 't_refocusing.append(curr_dur + t)',
                 'curr_dur = t[begin_block] - bd[begin_block]'],
    'waveforms': ['curr_dur = 0', 't = np.cumsum(bd)', 'begin_block = np.searchsorted(t, time_range[0])',
                  "end_block = np.searchsorted(t - bd, time_range[1], side='right')",
                  'blocks = list(self.block_durations.keys())[begin_block:end_block]', 'curr_dur += self.block_durations[block_counter]',
                  'cumsum(curr_dur + grad.delay, grad.rise_time, grad.flat_time, grad.fall_time)',
                  'cumsum(curr_dur + grad.delay, grad.rise_time, grad.fall_time)', 'curr_dur + grad.delay + grad.tt',
                  "curr_dur + grad.delay + np.concatenate(([0], grad.tt, [grad.tt[-1] + self.grad_raster_time / 2]))",
                  'curr_dur = t[begin_block] - bd[begin_block]'],
    'write': ["self.set_definition('TotalDuration', sum(self.block_durations.values()))"],
    'rf_from_lib_data': ['rf.t = decompress_shape(compressed) * self.rf_raster_time',
                         'rf.shape_dur = math.ceil((rf.t[-1] - eps) / self.rf_raster_time) * self.rf_raster_time',
                         'rf.t = (np.arange(1, len(rf.signal) + 1) - 0.5) * self.rf_raster_time',
                         'rf.shape_dur = len(rf.signal) * self.rf_raster_time'],
    'calculate_kspace': ['total_duration = sum(self.block_durations.values())',
                         't_excitation, fp_excitation, t_refocusing, _ = self.rf_times()', 't_adc, _ = self.adc_times()'],
}


def read_sequence_patterns():
    tree, _ = parse('Sequence/sequence.py')
    for nm, pats in SEQ_PATTERNS.items():
        src = unparse(method(tree, 'Sequence', nm))
        for p in pats:
            if p not in src:
                fail('Sequence.%s: expected `%s`' % (nm, p))


def sec_timing():
    ct = read_check_timing()
    cd = read_calc_duration()
    sb, guard = read_set_block()
    eps = read_eps()
    wcmp, wtol = read_write_seq()
    read_sequence_patterns()
    read_read_seq()
    CONSTS['timing_div_tol'] = ct['div_tol']
    out = HEADER % 'check_timing.py, calc_duration.py, Sequence/block.py::set_block, Sequence/write_seq.py, __init__.py (eps)'
    out += 'From PV Require Import Model.TimingSyntax.\n'
    out += 'Definition timing_eps : Q := %s.\n' % coq_Q(eps)
    out += 'Definition div_tol : Q := %s.\n' % coq_Q(ct['div_tol'])
    out += 'Definition div_cmp : cmp := %s.\n' % ct['div_cmp']
    out += 'Definition ct_block_raster : raster_id := %s.\n' % ct['block_raster']
    out += 'Definition ct_block_dur_term : term := %s.\n' % ct['block_dur_term']
    CONSTS['timing_raster_on_stored'] = ct['block_dur_term'] == 'TStored'
    out += 'Definition ct_mismatch : lintest := %s.\n' % ct['mismatch']
    kr, dflt = ct['kind_raster']
    out += 'Definition ct_kind_raster (k : ekind) : raster_id :=\n  match k with\n'
    for k in ALL_KINDS:
        out += '  | %s => %s\n' % (k, kr.get(k, dflt))
    out += '  end.\n'
    out += 'Definition ct_groups : list (guard * list echeck) :=\n  [' + ';\n   '.join(
        '(%s, [%s])' % (g, '; '.join(cs)) for g, cs in ct['groups']) + '].\n'
    out += 'Definition ct_rf_tests : list (lintest * attr * errkind) :=\n  [' + ';\n   '.join(ct['rf_tests']) + '].\n'
    out += 'Definition ct_adc_tests : list (lintest * attr * errkind) :=\n  [' + ';\n   '.join(ct['adc_tests']) + '].\n'

    def endfun(name, tbl, comment):
        s = '(* %s *)\nDefinition %s (k : ekind) : option (list attr) :=\n  match k with\n' % (comment, name)
        for k in ALL_KINDS:
            v = tbl.get(k)
            s += '  | %s => %s\n' % (k, 'None' if v in (None, 'GRAD') else 'Some [' + '; '.join(v) + ']')
        return s + '  end.\n'
    out += endfun('cd_end', cd, 'calc_duration.py: duration = max(duration, sum of these attributes); None = no contribution')
    out += endfun('sb_end', sb, 'block.py set_block: same; the gradient branch (delay + ceil(tt[-1]/raster - guard)*raster) is separate')
    if sb.get('KGrad') != 'GRAD':
        fail('set_block: arbitrary-gradient branch does not use grad_duration')
    out += 'Definition sb_ceil_guard : Q := %s.\n' % coq_Q(guard)
    out += 'Definition write_cmp : cmp := %s.\n' % wcmp
    out += 'Definition write_tol : Q := %s.\n' % coq_Q(wtol)
    return out


def read_read_seq():
    """read(): both block tables are REPLACED by what __read_blocks returns (no leftovers of the previous content)"""
    tree, _ = parse('Sequence/read_seq.py')
    fn = func(tree, 'read')
    src = unparse(fn)
    for p in ('self.block_events = {}', '(self.block_events, self.block_durations, delay_ind_temp) = result',
              'result = __read_blocks('):
        if p not in src and p.replace('(self.block_events, self.block_durations, delay_ind_temp)',
                                      'self.block_events, self.block_durations, delay_ind_temp') not in src:
            fail('read_seq.read: expected `%s`' % p)
    for n in ast.walk(fn):
        if isinstance(n, ast.Call) and isinstance(n.func, ast.Attribute) and n.func.attr in ('update', 'setdefault') \
                and unparse(n.func.value) in ('self.block_events', 'self.block_durations'):
            fail('read_seq.read merges into %s instead of replacing it' % unparse(n.func.value))


SECTIONS = {'GenTiming': sec_timing}


# ---- fingerprints of the regions the hand-written model (Model/Timing.v) transcribes ---------------------
def _fn(rel, name):
    return lambda: strip_doc(func(parse(rel)[0], name))


def _meth(name):
    return lambda: strip_doc(method(parse('Sequence/sequence.py')[0], 'Sequence', name))


def _write_blocks():
    fn = func(parse('Sequence/write_seq.py')[0], 'write')
    for n in ast.walk(fn):
        if isinstance(n, ast.For) and unparse(n.iter) == 'self.block_events' and any(isinstance(s, ast.Assert) for s in n.body):
            return n
    raise TranslateError('write_seq [BLOCKS] loop not found')


def _set_block_events():
    fn = func(parse('Sequence/block.py')[0], 'set_block')
    for st in strip_doc(fn):
        if isinstance(st, ast.For) and unparse(st.iter) == 'events':
            return st
    raise TranslateError('set_block event loop not found')


FP_SOURCES = {
    'set_block.events': _set_block_events,
    'check_timing': _fn('check_timing.py', 'check_timing'),
    'calc_duration': _fn('calc_duration.py', 'calc_duration'),
    'cumsum': _fn('utils/cumsum.py', 'cumsum'),
    'Sequence.check_timing': _meth('check_timing'),
    'Sequence.duration': _meth('duration'),
    'Sequence.adc_times': _meth('adc_times'),
    'Sequence.rf_times': _meth('rf_times'),
    'Sequence.waveforms': _meth('waveforms'),
    'Sequence.write': _meth('write'),
    'Sequence.rf_from_lib_data': _meth('rf_from_lib_data'),
    'Sequence.read': _meth('read'),
    'print_error_report': _fn('check_timing.py', 'print_error_report'),
    'write_seq.blocks': _write_blocks,
}
FP_GROUPS = {
    'FP_timing_check': ['check_timing', 'calc_duration', 'Sequence.check_timing', 'Sequence.rf_from_lib_data',
                        'Sequence.read', 'print_error_report'],
    'FP_timeline': ['set_block.events', 'calc_duration', 'cumsum', 'Sequence.duration', 'Sequence.adc_times', 'Sequence.rf_times',
                    'Sequence.waveforms', 'Sequence.write', 'write_seq.blocks'],
}
