"""gensec/limits.py — C04: unit conversion (convert.py, translated expression by expression), the way Opts
uses it, and the limit checks of make_extended_trapezoid / make_arbitrary_grad (constants + fingerprints)."""
import ast

import translate as T
from translate import TranslateError, parse, func, method, unparse, const_num, coq_Q, HEADER, fp, strip_doc


def _unit_ident(u):
    return 'U_' + u.replace('/', '_')


def _expr(node, var):
    """arithmetic expression over {from_value|standard -> x, gamma, np.pi -> pi, literals} -> Coq Q term"""
    if isinstance(node, ast.BinOp):
        ops = {ast.Mult: '*', ast.Div: '/', ast.Add: '+', ast.Sub: '-'}
        for k, s in ops.items():
            if isinstance(node.op, k):
                return '(%s %s %s)' % (_expr(node.left, var), s, _expr(node.right, var))
        raise TranslateError('unsupported operator in convert(): %s' % unparse(node))
    if isinstance(node, ast.Name):
        if node.id == var:
            return 'x'
        if node.id == 'gamma':
            return 'gamma'
        raise TranslateError('unexpected name %s in convert()' % node.id)
    if isinstance(node, ast.Attribute) and unparse(node) == 'np.pi':
        return 'pi'
    if isinstance(node, (ast.Constant, ast.UnaryOp)):
        return coq_Q(const_num(node))
    raise TranslateError('unsupported expression in convert(): %s' % unparse(node))


def _test_units(test, subject):
    """`subject == 'u'` or an `or` of those -> list of unit strings"""
    if isinstance(test, ast.BoolOp) and isinstance(test.op, ast.Or):
        out = []
        for v in test.values:
            out += _test_units(v, subject)
        return out
    if isinstance(test, ast.Compare) and len(test.ops) == 1 and isinstance(test.ops[0], ast.Eq) \
            and unparse(test.left) == subject and isinstance(test.comparators[0], ast.Constant) \
            and isinstance(test.comparators[0].value, str):
        return [test.comparators[0].value]
    raise TranslateError('unexpected branch test in convert(): %s' % unparse(test))


def _chain(fn, subject, target, var):
    """the if/elif chain whose tests compare `subject` and whose bodies are `target = <expr>`:
    returns {unit: coq expr} with first-match semantics"""
    for st in fn.body:
        if isinstance(st, ast.If):
            try:
                _test_units(st.test, subject)
            except TranslateError:
                continue
            if not (len(st.body) == 1 and isinstance(st.body[0], ast.Assign)
                    and unparse(st.body[0].targets[0]) == target):
                continue
            res = {}
            cur = st
            while True:
                units = _test_units(cur.test, subject)
                if not (len(cur.body) == 1 and isinstance(cur.body[0], ast.Assign)
                        and unparse(cur.body[0].targets[0]) == target):
                    raise TranslateError('branch body is not `%s = <expr>`' % target)
                e = _expr(cur.body[0].value, var)
                for u in units:
                    res.setdefault(u, e)
                if len(cur.orelse) == 1 and isinstance(cur.orelse[0], ast.If):
                    cur = cur.orelse[0]
                elif not cur.orelse:
                    break
                else:
                    raise TranslateError('convert(): chain for %s ends with an else branch' % target)
            return res
    raise TranslateError('convert(): if/elif chain assigning %s not found' % target)


def _strlist(fn, name):
    v = T.assign_value(fn, name)
    if not isinstance(v, ast.List) or not all(isinstance(e, ast.Constant) and isinstance(e.value, str) for e in v.elts):
        raise TranslateError('%s is not a list of string literals' % name)
    return [e.value for e in v.elts]


def sec_units():
    tree, _ = parse('convert.py')
    fn = func(tree, 'convert')
    gunits = _strlist(fn, 'valid_grad_units')
    sunits = _strlist(fn, 'valid_slew_units')
    if unparse(T.assign_value(fn, 'valid_units')) != 'valid_grad_units + valid_slew_units':
        raise TranslateError('valid_units is not valid_grad_units + valid_slew_units')
    units = gunits + sunits
    if len(set(units)) != len(units):
        raise TranslateError('duplicate unit names')
    to_std = _chain(fn, 'from_unit', 'standard', 'from_value')
    from_std = _chain(fn, 'to_unit', 'out', 'standard')
    for u in units:
        if u not in to_std or u not in from_std:
            raise TranslateError('unit %s has no branch in convert()' % u)
    if [unparse(r.value) for r in ast.walk(fn) if isinstance(r, ast.Return)] != ['out']:
        raise TranslateError('convert() does not return `out`')
    # default target unit: first of the family
    src = unparse(fn)
    if 'to_unit = valid_grad_units[0]' not in src or 'to_unit = valid_slew_units[0]' not in src:
        raise TranslateError('default to_unit selection changed')
    # Opts: how the limits are converted
    to, _ = parse('opts.py')
    init = method(to, 'Opts', '__init__')
    isrc = unparse(init)
    need = ["max_grad = convert(from_value=max_grad, from_unit=grad_unit, to_unit='Hz/m', gamma=abs(gamma))",
            "max_slew = convert(from_value=max_slew, from_unit=slew_unit, to_unit='Hz/m', gamma=abs(gamma))",
            'max_slew = max_grad / rise_time']
    for frag in need:
        if frag not in isrc:
            raise TranslateError('Opts.__init__: expected `%s`' % frag)
    if _strlist(init, 'valid_grad_units') != gunits or _strlist(init, 'valid_slew_units') != sunits:
        raise TranslateError('Opts and convert disagree on the unit lists')
    out = HEADER % 'convert.py (whole function), opts.py (use of convert)'
    out += 'Open Scope Q_scope.\n'
    out += 'Inductive unit : Set := %s.\n' % ' | '.join(_unit_ident(u) for u in units)
    out += 'Definition grad_units : list unit := [%s].\n' % '; '.join(_unit_ident(u) for u in gunits)
    out += 'Definition slew_units : list unit := [%s].\n' % '; '.join(_unit_ident(u) for u in sunits)
    out += 'Definition all_units : list unit := grad_units ++ slew_units.\n'
    out += '(* "Convert to standard units" chain of convert.py *)\n'
    out += 'Definition to_standard (pi gamma : Q) (u : unit) (x : Q) : Q :=\n  match u with\n'
    for u in units:
        out += '  | %s => %s\n' % (_unit_ident(u), to_std[u])
    out += '  end.\n(* "Convert from standard units" chain of convert.py *)\n'
    out += 'Definition from_standard (pi gamma : Q) (u : unit) (x : Q) : Q :=\n  match u with\n'
    for u in units:
        out += '  | %s => %s\n' % (_unit_ident(u), from_std[u])
    out += '  end.\n'
    out += 'Definition std_grad_unit : unit := %s.\nDefinition std_slew_unit : unit := %s.\n' % (
        _unit_ident(gunits[0]), _unit_ident(sunits[0]))
    # what Opts passes as to_unit for both limits
    out += "(* Opts.__init__ converts both limits with to_unit='Hz/m' *)\nDefinition opts_target_unit : unit := %s.\n" % _unit_ident('Hz/m')
    T.CONSTS['units'] = units
    return out


def _find_compare(fn, left_src):
    for n in ast.walk(fn):
        if isinstance(n, ast.Compare) and len(n.ops) == 1 and unparse(n.left) == left_src:
            return n
    raise TranslateError('%s: comparison `%s …` not found' % (fn.name, left_src))


def sec_limits():
    """the acceptance tests of make_extended_trapezoid and make_arbitrary_grad"""
    t1, _ = parse('make_extended_trapezoid.py')
    f1 = func(t1, 'make_extended_trapezoid')
    c = _find_compare(f1, 'max(abs(slew))')
    if not isinstance(c.ops[0], ast.Gt) or unparse(c.comparators[0]) != 'max_slew * (1 + eps)':
        raise TranslateError('make_extended_trapezoid: slew test changed: %s' % unparse(c))
    c = _find_compare(f1, 'max(abs(grad.waveform))')
    if not isinstance(c.ops[0], ast.Gt) or unparse(c.comparators[0]) != 'max_grad + eps':
        raise TranslateError('make_extended_trapezoid: amplitude test changed: %s' % unparse(c))
    src1 = unparse(f1)
    for frag in ['slew = np.diff(grad.waveform) / np.diff(grad.tt)', 'if np.any(np.diff(times) <= 0):',
                 'if max_grad <= 0:', 'if max_slew <= 0:', 'grad.first = amplitudes[0]', 'grad.last = amplitudes[-1]',
                 'grad.tt = times - grad.delay', 'grad.waveform = amplitudes',
                 'if abs(round(times[-1] / system.grad_raster_time) * system.grad_raster_time - times[-1]) > eps:',
                 'if np.any(np.abs(np.round(times / system.grad_raster_time) * system.grad_raster_time - times) > eps):']:
        if frag not in src1:
            raise TranslateError('make_extended_trapezoid: expected `%s`' % frag)
    t2, _ = parse('make_arbitrary_grad.py')
    f2 = func(t2, 'make_arbitrary_grad')
    c = _find_compare(f2, 'max(abs(slew_rate))')
    if not isinstance(c.ops[0], ast.Gt) or unparse(c.comparators[0]) != 'max_slew * (1 + eps)':
        raise TranslateError('make_arbitrary_grad: slew test changed: %s' % unparse(c))
    c = _find_compare(f2, 'max(abs(waveform))')
    if not isinstance(c.ops[0], ast.Gt) or unparse(c.comparators[0]) != 'max_grad + eps':
        raise TranslateError('make_arbitrary_grad: amplitude test changed: %s' % unparse(c))
    src2 = unparse(f2)
    for frag in ['slew_rate = np.diff(waveform) / system.grad_raster_time',
                 'first = (3 * waveform[0] - waveform[1]) * 0.5', 'last = (3 * waveform[-1] - waveform[-2]) * 0.5',
                 'grad.tt = (np.arange(len(waveform)) + 0.5) * system.grad_raster_time',
                 'if max_grad is None or max_grad == 0:', 'if max_slew is None or max_slew == 0:']:
        if frag not in src2:
            raise TranslateError('make_arbitrary_grad: expected `%s`' % frag)
    # eps
    ti, _ = parse('__init__.py')
    eps_src = None
    for n in ti.body:
        if isinstance(n, ast.Assign) and unparse(n.targets[0]) == 'eps':
            eps_src = unparse(n.value)
    if eps_src != '10 ** np.floor(np.log10(np.spacing(1000000.0) * 10))':
        raise TranslateError('pypulseq.eps definition changed: %s' % eps_src)
    import math
    import numpy as np
    eps = 10 ** np.floor(np.log10(np.spacing(1e6) * 10))
    if eps != 1e-9:
        raise TranslateError('pypulseq.eps is not 1e-9')
    out = HEADER % 'make_extended_trapezoid.py, make_arbitrary_grad.py, __init__.py (eps)'
    out += 'Definition pp_eps : Q := ((1) # 1000000000).\n'
    out += '(* both constructors reject when  max|slope| > max_slew * (1 + eps)  or  max|value| > max_grad + eps *)\n'
    out += 'Definition slew_slack_rel : Q := pp_eps.\nDefinition grad_slack_abs : Q := pp_eps.\n'
    out += '(* default edge values of make_arbitrary_grad: (3*w0 - w1) * 0.5 *)\n'
    out += 'Definition arb_edge_c0 : Q := ((3) # 1).\nDefinition arb_edge_c1 : Q := ((1) # 2).\n'
    return out


SECTIONS = {'GenUnits': sec_units, 'GenLimits': sec_limits}


def _body(rel, name):
    tree, _ = parse(rel)
    return strip_doc(func(tree, name))


FP_SOURCES = {
    'make_extended_trapezoid': lambda: _body('make_extended_trapezoid.py', 'make_extended_trapezoid'),
    'make_arbitrary_grad': lambda: _body('make_arbitrary_grad.py', 'make_arbitrary_grad'),
    'points_to_waveform': lambda: _body('points_to_waveform.py', 'points_to_waveform'),
}
FP_GROUPS = {'FP_limits_ctors': ['make_extended_trapezoid', 'make_arbitrary_grad', 'points_to_waveform']}
