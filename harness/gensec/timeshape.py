"""gensec/timeshape.py — C14: when is a gradient's time vector stored as "regular" (no time shape) and how are the time
points decoded again (block.py register_grad_event / get_block).  Emits Gen/GenTimeShape.v with the tolerance and fails
closed unless the decision and the two decoding expressions have exactly the form Model/TimeShape.v transcribes."""
import ast

from translate import TranslateError, parse, func, unparse, const_num, coq_Q, HEADER


def sec_timeshape():
    tree, _ = parse('Sequence/block.py')
    reg = func(tree, 'register_grad_event')
    dec = None
    for n in ast.walk(reg):
        if isinstance(n, ast.Assign) and unparse(n.targets[0]) == 'tt_regular':
            dec = n.value
    if dec is None:
        raise TranslateError('register_grad_event: assignment to tt_regular not found')
    want = 'bool(np.all(np.abs(event.tt / self.grad_raster_time - 0.5 - np.arange(len(event.tt))) < TOL))'
    cmp_node = None
    for n in ast.walk(dec):
        if isinstance(n, ast.Compare):
            cmp_node = n
    if cmp_node is None or len(cmp_node.ops) != 1 or not isinstance(cmp_node.ops[0], ast.Lt):
        raise TranslateError('tt_regular: the decision is not a single `<` comparison: %s' % unparse(dec))
    tol = const_num(cmp_node.comparators[0])
    if unparse(dec).replace(unparse(cmp_node.comparators[0]), 'TOL') != want:
        raise TranslateError('tt_regular: unexpected form: %s' % unparse(dec))
    # the time shape is stored exactly when the vector is not regular, in raster units
    ifs = [n for n in ast.walk(reg) if isinstance(n, ast.If) and unparse(n.test) == 'not tt_regular']
    if len(ifs) != 1 or 'c_time = compress_shape(event.tt / self.grad_raster_time)' not in unparse(ifs[0]):
        raise TranslateError('register_grad_event: time shape no longer stored as event.tt / grad_raster_time when not regular')
    # decoding in get_block
    gb = unparse(func(tree, 'get_block'))
    for piece in ('if time_id == 0:\n', 'grad.tt = (np.arange(1, len(g) + 1) - 0.5) * self.grad_raster_time',
                  'grad.tt = decompress_shape(compressed) * self.grad_raster_time'):
        if piece not in gb:
            raise TranslateError('get_block: decoding of the time points changed (missing: %s)' % piece.strip())
    out = HEADER % 'Sequence/block.py (register_grad_event: tt_regular; get_block: decoding of tt)'
    out += 'Open Scope Q_scope.\n'
    out += '(* |tt_k / raster - 1/2 - k| < tt_tol for every k  <->  the vector is stored without a time shape *)\n'
    out += 'Definition tt_tol : Q := %s.\n' % coq_Q(tol)
    return out


SECTIONS = {'GenTimeShape': sec_timeshape}
