"""gensec/pns.py — translator plug-in for C20 (PNS prediction = SAFE model on the sequence gradients).

Reads, with `ast` only, from
  utils/safe_pns_prediction.py : alpha expression, filter construction, the three branch expressions of
                                 safe_pns_model (weight index, tau index, where the abs() sits), the ms factor, the
                                 percent factor, the padding arithmetic, the weight tolerance of safe_hw_check
  Sequence/calc_pns.py         : raster-centre offset, the end-time slack, the gamma division, the 0.01 factor, the
                                 un-padding slice offset, the strictness and threshold of the `ok` decision
  Sequence/sequence.py         : the `teps` flank width of get_gradients
and emits coq/Gen/GenPns.v.  Fail-closed: every statement the hand-written model transcribes is compared with its
expected spelling (ast.unparse), every number is taken from the source.
"""
import ast
from fractions import Fraction

from translate import (parse, func, method, assign_value, const_num, const_int, coq_Q, unparse, strip_doc,
                       HEADER, TranslateError, CONSTS)

SAFE = 'utils/safe_pns_prediction.py'
CALC = 'Sequence/calc_pns.py'
SEQ = 'Sequence/sequence.py'


def expect(got_node, spelling, what):
    got = unparse(got_node)
    if got != spelling:
        raise TranslateError('%s: expected `%s`, found `%s`' % (what, spelling, got))


def q_expr(node, names):
    """arithmetic expression over the given names -> Gallina term over Q"""
    if isinstance(node, ast.Name):
        if node.id not in names:
            raise TranslateError('unexpected name %s in expression' % node.id)
        return node.id
    if isinstance(node, ast.Constant):
        return coq_Q(const_num(node))
    if isinstance(node, ast.BinOp):
        ops = {ast.Add: '+', ast.Sub: '-', ast.Mult: '*', ast.Div: '/'}
        for k, s in ops.items():
            if isinstance(node.op, k):
                return '(%s %s %s)' % (q_expr(node.left, names), s, q_expr(node.right, names))
    raise TranslateError('unsupported expression: %s' % unparse(node))


def returns(fn):
    r = [n for n in ast.walk(fn) if isinstance(n, ast.Return)]
    # only the first return is reachable in safe_pns_model (the rest of the body is comments)
    if not r:
        raise TranslateError('%s: no return' % fn.name)
    return r


def branch_of(fn, k):
    """stimK = hw.aI * abs(safe_tau_lowpass(dgdt, hw.tauJ, dt * F))   -> (I, J, abs_in=False, abs_out=True, F)
       stimK = hw.aI * safe_tau_lowpass(abs(dgdt), hw.tauJ, dt * F)   -> (I, J, True, False, F)"""
    v = assign_value(fn, 'stim%d' % k)
    if not (isinstance(v, ast.BinOp) and isinstance(v.op, ast.Mult)):
        raise TranslateError('stim%d: product expected, found `%s`' % (k, unparse(v)))
    w = unparse(v.left)
    if w not in ('hw.a1', 'hw.a2', 'hw.a3'):
        raise TranslateError('stim%d: weight hw.aI expected, found `%s`' % (k, w))
    wi = int(w[-1])
    r = v.right
    abs_out = False
    if isinstance(r, ast.Call) and unparse(r.func) == 'abs' and len(r.args) == 1 and not r.keywords:
        abs_out = True
        r = r.args[0]
    if not (isinstance(r, ast.Call) and unparse(r.func) == 'safe_tau_lowpass' and len(r.args) == 3 and not r.keywords):
        raise TranslateError('stim%d: call of safe_tau_lowpass(x, tau, dt) expected, found `%s`' % (k, unparse(r)))
    x, tau, dtx = r.args
    abs_in = False
    if isinstance(x, ast.Call) and unparse(x.func) == 'abs' and len(x.args) == 1 and not x.keywords:
        abs_in = True
        x = x.args[0]
    expect(x, 'dgdt', 'stim%d filter input' % k)
    t = unparse(tau)
    if t not in ('hw.tau1', 'hw.tau2', 'hw.tau3'):
        raise TranslateError('stim%d: time constant hw.tauJ expected, found `%s`' % (k, t))
    ti = int(t[-1])
    if not (isinstance(dtx, ast.BinOp) and isinstance(dtx.op, ast.Mult) and unparse(dtx.left) == 'dt'):
        raise TranslateError('stim%d: `dt * <ms factor>` expected, found `%s`' % (k, unparse(dtx)))
    ms = const_num(dtx.right)
    return wi, ti, abs_in, abs_out, ms


def sec_pns():
    tree, _ = parse(SAFE)
    # ---- safe_tau_lowpass
    lp = func(tree, 'safe_tau_lowpass')
    argn = [a.arg for a in lp.args.args]
    if argn != ['dgdt', 'tau', 'dt', 'eps'] or len(lp.args.defaults) != 1:
        raise TranslateError('safe_tau_lowpass signature changed: %s' % argn)
    eps = const_num(lp.args.defaults[0])
    alpha = q_expr(assign_value(lp, 'alpha'), {'dt', 'tau'})
    expect(assign_value(lp, 'n'), 'min(round(np.log(eps) / np.log(1 - alpha)), dgdt.shape[0])', 'tap count')
    expect(assign_value(lp, 'filt'), '(1 - alpha) ** np.arange(n)', 'filter taps')
    rets = returns(lp)
    if len(rets) != 1:
        raise TranslateError('safe_tau_lowpass: one return expected')
    expect(rets[0].value, 'alpha * np.convolve(dgdt, filt)[:dgdt.shape[0]]', 'filter output')
    # ---- safe_pns_model
    pm = func(tree, 'safe_pns_model')
    br = [branch_of(pm, k) for k in (1, 2, 3)]
    ms = {b[4] for b in br}
    if len(ms) != 1:
        raise TranslateError('the three filters use different ms factors: %s' % ms)
    ms = ms.pop()
    st = assign_value(pm, 'stim')
    # (stim1 + stim2 + stim3) / hw.stim_limit * hw.g_scale * PCT
    if not (isinstance(st, ast.BinOp) and isinstance(st.op, ast.Mult)):
        raise TranslateError('stim: `... * <percent>` expected, found `%s`' % unparse(st))
    pct = const_num(st.right)
    expect(st.left, '(stim1 + stim2 + stim3) / hw.stim_limit * hw.g_scale', 'stim combination')
    body = [s for s in strip_doc(pm)]
    first_ret = next((i for i, s in enumerate(body) if isinstance(s, ast.Return)), None)
    if first_ret is None:
        raise TranslateError('safe_pns_model: no return')
    expect(body[first_ret].value, 'stim', 'safe_pns_model return value')
    # ---- safe_gwf_to_pns
    gp = func(tree, 'safe_gwf_to_pns')
    z = assign_value(gp, 'zpt')
    # safe_longest_time_const(hw) * A / B
    if not (isinstance(z, ast.BinOp) and isinstance(z.op, ast.Div) and isinstance(z.left, ast.BinOp)
            and isinstance(z.left.op, ast.Mult) and unparse(z.left.left) == 'safe_longest_time_const(hw)'):
        raise TranslateError('zpt: `safe_longest_time_const(hw) * A / B` expected, found `%s`' % unparse(z))
    zmul, zdiv = const_num(z.left.right), const_num(z.right)
    pads = []
    pad_min = []
    for nm in ('pad1', 'pad2'):
        p = assign_value(gp, nm)
        lo = 0
        # repaired form `max(round(zpt / K / dt), 1)` (at least one leading zero sample) is accepted as well
        if isinstance(p, ast.Call) and unparse(p.func) == 'max' and len(p.args) == 2 and not p.keywords:
            lo = const_int(p.args[1])
            p = p.args[0]
        ok = (isinstance(p, ast.Call) and unparse(p.func) == 'round' and len(p.args) == 1 and not p.keywords
              and isinstance(p.args[0], ast.BinOp) and isinstance(p.args[0].op, ast.Div)
              and unparse(p.args[0].right) == 'dt' and isinstance(p.args[0].left, ast.BinOp)
              and isinstance(p.args[0].left.op, ast.Div) and unparse(p.args[0].left.left) == 'zpt')
        if not ok or lo < 0:
            raise TranslateError('%s: `round(zpt / K / dt)` or `max(round(zpt / K / dt), m)` expected, found `%s`'
                                 % (nm, unparse(assign_value(gp, nm))))
        pads.append(const_num(p.args[0].left.right))
        pad_min.append(lo)
    expect(assign_value_in_if(gp, 'gwf'), 'np.pad(gwf, ((pad1, pad2), (0, 0)))', 'gradient padding')
    expect(assign_value_in_if(gp, 'rf'), 'np.pad(rf, (pad1, pad2))', 'rf padding')
    expect(assign_value(gp, 'dgdt'), 'np.diff(gwf, axis=0) / dt', 'slew rate')
    cols = {}
    for n in ast.walk(gp):
        if isinstance(n, ast.Assign) and unparse(n.targets[0]).startswith('pns[:, '):
            cols[unparse(n.targets[0])] = unparse(n.value)
    want = {'pns[:, %d]' % i: 'safe_pns_model(dgdt[:, %d], dt, hw.%s)' % (i, a) for i, a in enumerate('xyz')}
    if cols != want:
        raise TranslateError('per-axis model calls changed: %s' % cols)
    expect(assign_value(gp, 'res.rf') if False else attr_assign(gp, 'res.rf'), 'rf', 'exported rf')
    lt = func(tree, 'safe_longest_time_const')
    expect(returns(lt)[0].value,
           'max([hw.x.tau1, hw.x.tau2, hw.x.tau3, hw.y.tau1, hw.y.tau2, hw.y.tau3, hw.z.tau1, hw.z.tau2, hw.z.tau3])',
           'longest time constant')
    hc = func(tree, 'safe_hw_check')
    first_if = next((s for s in strip_doc(hc) if isinstance(s, ast.If)), None)
    if first_if is None or not isinstance(first_if.test, ast.BoolOp) or not isinstance(first_if.test.op, ast.Or):
        raise TranslateError('safe_hw_check: weight test not found')
    tols = set()
    for ax, t in zip('xyz', first_if.test.values):
        if not (isinstance(t, ast.Compare) and len(t.ops) == 1 and isinstance(t.ops[0], ast.Gt)):
            raise TranslateError('safe_hw_check: `abs(sum - 1) > tol` expected')
        expect(t.left, 'abs(hw.%s.a1 + hw.%s.a2 + hw.%s.a3 - 1)' % (ax, ax, ax), 'weight sum test')
        tols.add(const_num(t.comparators[0]))
    if len(first_if.test.values) != 3 or len(tols) != 1:
        raise TranslateError('safe_hw_check: three tests with one tolerance expected')
    if not (len(first_if.body) == 1 and isinstance(first_if.body[0], ast.Raise)):
        raise TranslateError('safe_hw_check: raise expected')
    hw_tol = tols.pop()

    # ---- calc_pns
    ctree, _ = parse(CALC)
    cp = func(ctree, 'calc_pns')
    expect(assign_value(cp, 'dt'), 'obj.grad_raster_time', 'dt')
    mt = assign_value(cp, 'max_t')
    if not (isinstance(mt, ast.BinOp) and isinstance(mt.op, ast.Sub)
            and unparse(mt.left) == 'max((g.x[-1] for g in gw_pp if g is not None))'):
        raise TranslateError('max_t expression changed: `%s`' % unparse(mt))
    slack = const_num(mt.right)
    # the time_range is None branch
    tr_if = next((s for s in strip_doc(cp) if isinstance(s, ast.If) and unparse(s.test) == 'time_range is None'), None)
    if tr_if is None:
        raise TranslateError('calc_pns: `if time_range is None` not found')
    asg = {unparse(s.targets[0]): s.value for s in tr_if.body if isinstance(s, ast.Assign)}
    expect(asg.get('nt', ast.Constant(None)), 'int(np.ceil(max_t / dt))', 'number of samples')
    tt = asg.get('t')
    if not (isinstance(tt, ast.BinOp) and isinstance(tt.op, ast.Mult) and unparse(tt.right) == 'dt'
            and isinstance(tt.left, ast.BinOp) and isinstance(tt.left.op, ast.Add)
            and unparse(tt.left.left) == 'np.arange(nt)'):
        raise TranslateError('sampling times: `(np.arange(nt) + c) * dt` expected')
    centre = const_num(tt.left.right)
    call = None
    for n in ast.walk(cp):
        if isinstance(n, ast.Call) and unparse(n.func) == 'safe_gwf_to_pns':
            call = n
    if call is None or call.keywords or len(call.args) != 4:
        raise TranslateError('safe_gwf_to_pns call not found / changed')
    expect(call.args[0], 'gw / obj.system.gamma', 'unit conversion')
    expect(call.args[1], 'np.nan * np.ones(t.shape[0])', 'rf marker vector')
    expect(call.args[2], 'obj.grad_raster_time', 'dt argument')
    expect(call.args[3], 'hardware', 'hardware argument')
    pcs = [n.value for n in ast.walk(cp) if isinstance(n, ast.Assign) and unparse(n.targets[0]) == 'pns_comp']
    if len(pcs) != 1 or not (isinstance(pcs[0], ast.BinOp) and isinstance(pcs[0].op, ast.Mult)):
        raise TranslateError('pns_comp assignment changed')
    unpct = const_num(pcs[0].left)
    expect(pcs[0].right, 'pns_comp[~np.isfinite(res.rf[1:]), :]', 'un-padding')
    expect(assign_value(cp, 'pns_norm'), 'np.sqrt((pns_comp ** 2).sum(axis=1))', 'norm')
    okv = assign_value(cp, 'ok')
    if not (isinstance(okv, ast.Call) and unparse(okv.func) == 'all' and len(okv.args) == 1
            and isinstance(okv.args[0], ast.Compare) and len(okv.args[0].ops) == 1
            and unparse(okv.args[0].left) == 'pns_norm'):
        raise TranslateError('ok decision changed: `%s`' % unparse(okv))
    op = okv.args[0].ops[0]
    if isinstance(op, ast.Lt):
        strict = True
    elif isinstance(op, ast.LtE):
        strict = False
    else:
        raise TranslateError('ok decision: < or <= expected')
    limit = const_num(okv.args[0].comparators[0])
    expect(returns(cp)[0].value, '(ok, pns_norm, pns_comp, t)', 'calc_pns return')
    for s in strip_doc(cp):
        if isinstance(s, ast.For) and unparse(s.iter) == 'range(ng)' and 'gw[:, i]' in unparse(s):
            expect(s.body[0], 'if gw_pp[i] is not None:\n    gw[:, i] = gw_pp[i](t)', 'sampling loop')
            break
    else:
        raise TranslateError('sampling loop not found')

    # ---- get_gradients flanks
    stree, _ = parse(SEQ)
    gg = method(stree, 'Sequence', 'get_gradients')
    teps = const_num(assign_value(gg, 'teps'))
    expect(assign_value(gg, '_temp1'), 'np.array(([gw[0, 0] - 2 * teps, gw[0, 0] - teps], [0, 0]))', 'left flank')
    expect(assign_value(gg, '_temp2'), 'np.array(([gw[0, -1] + teps, gw[0, -1] + 2 * teps], [0, 0]))', 'right flank')
    pp_ok = any(isinstance(n, ast.Call) and unparse(n) ==
                'gw_pp.append(PPoly(np.stack((np.diff(gw[1]) / np.diff(gw[0]), gw[1][:-1])), gw[0], extrapolate=True))'
                for n in ast.walk(gg))
    if not pp_ok:
        raise TranslateError('get_gradients: PPoly construction changed')

    CONSTS['pns'] = {'eps': eps, 'ms': ms, 'pct': pct, 'unpct': unpct, 'strict': strict, 'branches': br,
                     'slack': slack, 'centre': centre, 'teps': teps, 'pad_min': pad_min}
    out = HEADER % (SAFE + ', ' + CALC + ', ' + SEQ + ' (get_gradients)')
    out += 'Open Scope Q_scope.\n'
    out += '(* safe_tau_lowpass: alpha = %s *)\n' % unparse(assign_value(lp, 'alpha'))
    out += 'Definition alpha_of (dt tau : Q) : Q := %s.\n' % alpha
    out += 'Definition lowpass_eps : Q := %s.\n' % coq_Q(eps)
    out += '(* safe_pns_model: one entry per stimK = hw.a<weight> * [abs] lowpass([abs] dgdt, hw.tau<tau>, dt*ms) *)\n'
    out += 'Record branch := mkBranch { b_weight : nat; b_tau : nat; b_abs_in : bool; b_abs_out : bool }.\n'
    out += 'Definition branches : list branch :=\n  [%s].\n' % ';\n   '.join(
        'mkBranch %d %d %s %s' % (b[0], b[1], 'true' if b[2] else 'false', 'true' if b[3] else 'false') for b in br)
    out += 'Definition ms_factor : Q := %s.\n' % coq_Q(ms)
    out += 'Definition pct : Q := %s.\n' % coq_Q(pct)
    out += '(* safe_gwf_to_pns: zpt = longest * %s / %s; pad1 = round(zpt / %s / dt); pad2 = round(zpt / %s / dt) *)\n' % (
        zmul, zdiv, pads[0], pads[1])
    out += 'Definition zpt_mul : Q := %s.\nDefinition zpt_div : Q := %s.\n' % (coq_Q(zmul), coq_Q(zdiv))
    out += 'Definition pad1_div : Q := %s.\nDefinition pad2_div : Q := %s.\n' % (coq_Q(pads[0]), coq_Q(pads[1]))
    out += 'Definition pad1_min : nat := %d.\nDefinition pad2_min : nat := %d.\n' % (pad_min[0], pad_min[1])
    out += 'Definition hw_weight_tol : Q := %s.\n' % coq_Q(hw_tol)
    out += '(* calc_pns *)\n'
    out += 'Definition centre_offset : Q := %s.\n' % coq_Q(centre)
    out += 'Definition maxt_slack : Q := %s.\n' % coq_Q(slack)
    out += 'Definition unpct : Q := %s.\n' % coq_Q(unpct)
    out += 'Definition ok_strict : bool := %s.\n' % ('true' if strict else 'false')
    out += 'Definition ok_limit : Q := %s.\n' % coq_Q(limit)
    out += '(* get_gradients *)\n'
    out += 'Definition teps : Q := %s.\n' % coq_Q(teps)
    return out


def assign_value_in_if(fn, name):
    """value of the unique assignment `name = ...` inside the `if do_padding:` block"""
    blk = next((s for s in strip_doc(fn) if isinstance(s, ast.If) and unparse(s.test) == 'do_padding'), None)
    if blk is None:
        raise TranslateError('`if do_padding:` not found')
    if blk.orelse:
        raise TranslateError('`if do_padding:` has an else branch')
    vals = [s.value for s in blk.body if isinstance(s, ast.Assign) and unparse(s.targets[0]) == name]
    if len(vals) != 1:
        raise TranslateError('expected one assignment to %s under do_padding' % name)
    return vals[0]


def attr_assign(fn, target):
    vals = [n.value for n in ast.walk(fn) if isinstance(n, ast.Assign) and unparse(n.targets[0]) == target]
    if len(vals) != 1:
        raise TranslateError('expected one assignment to %s' % target)
    return vals[0]


def _fp_func(rel, name):
    def f():
        tree, _ = parse(rel)
        return strip_doc(func(tree, name))
    return f


def _fp_method(rel, cls, name):
    def f():
        tree, _ = parse(rel)
        return strip_doc(method(tree, cls, name))
    return f


SECTIONS = {'GenPns': sec_pns}
FP_SOURCES = {
    'calc_pns': _fp_func(CALC, 'calc_pns'),
    'safe_pns_model': _fp_func(SAFE, 'safe_pns_model'),
    'safe_tau_lowpass': _fp_func(SAFE, 'safe_tau_lowpass'),
    'safe_gwf_to_pns': _fp_func(SAFE, 'safe_gwf_to_pns'),
    'safe_hw_check': _fp_func(SAFE, 'safe_hw_check'),
    'safe_longest_time_const': _fp_func(SAFE, 'safe_longest_time_const'),
    'Sequence.get_gradients': _fp_method(SEQ, 'Sequence', 'get_gradients'),
    'Sequence.waveforms': _fp_method(SEQ, 'Sequence', 'waveforms'),
    'Sequence.calculate_pns': _fp_method(SEQ, 'Sequence', 'calculate_pns'),
}
FP_GROUPS = {'FP_pns': sorted(FP_SOURCES)}
