"""gensec/gradops.py — translator plug-in for Model/GradOps.v (properties C17, C18).

Reads, with `ast` only, from the CURRENT source:
  rotate.py              elimination factor `1e-6`, the axis list ['x','y','z'], which element of axes_to_rotate
                         each of the two cross terms is assigned to, and the sign in front of np.sin of each
  split_gradient.py      the four `round(grad.F / grad_raster_time) * grad_raster_time` statements
  split_gradient_at.py   the same four statements, `t_eps`, the digits of the two `round(…, 6)` work-arounds, the
                         `1e-10` tolerance of the arbitrary-gradient test
  align.py               the order of alignment_options
  pypulseq/__init__.py   eps
Fail-closed: any pattern that is not found raises TranslateError.
"""
import ast
import math
from fractions import Fraction

from translate import (parse, func, method, assign_value, const_num, const_int, coq_Q, unparse, strip_doc,
                       HEADER, TranslateError, CONSTS)

CH = {'x': 0, 'y': 1, 'z': 2}


def _calls(fn, name):
    return [n for n in ast.walk(fn) if isinstance(n, ast.Call) and unparse(n.func) == name]


def _rounding_fields(fn, what):
    """fields F for which `grad.F = round(grad.F / grad_raster_time) * grad_raster_time` occurs"""
    got = []
    for n in ast.walk(fn):
        if isinstance(n, ast.Assign) and len(n.targets) == 1 and unparse(n.targets[0]).startswith('grad.'):
            f = unparse(n.targets[0])[5:]
            if unparse(n.value) == 'round(grad.%s / grad_raster_time) * grad_raster_time' % f:
                got.append(f)
    if got != ['delay', 'rise_time', 'flat_time', 'fall_time']:
        raise TranslateError('%s: raster rounding statements are %s' % (what, got))
    return got


def read_eps():
    tree, _ = parse('__init__.py')
    val = None
    for n in tree.body:
        if isinstance(n, ast.Assign) and len(n.targets) == 1 and unparse(n.targets[0]) == 'eps':
            val = n.value
    if val is None:
        raise TranslateError('pypulseq.eps not found')
    txt = unparse(val)
    if txt == '10 ** np.floor(np.log10(np.spacing(1000000.0) * 10))':
        return Fraction(10) ** math.floor(math.log10(math.ulp(1e6) * 10))
    return const_num(val)


def read_rotate():
    tree, _ = parse('rotate.py')
    fn = func(tree, 'rotate')
    axes = assign_value(fn, 'axes')
    if not isinstance(axes, ast.List) or [unparse(e) for e in axes.elts] != ["'x'", "'y'", "'z'"]:
        raise TranslateError('rotate: axes list is %s' % unparse(axes))
    src = [unparse(s) for s in strip_doc(fn)]
    if 'axes.remove(axis)' not in src or 'axes_to_rotate = axes' not in src:
        raise TranslateError('rotate: axes.remove(axis) / axes_to_rotate = axes not found')
    thr = assign_value(fn, 'threshold')
    if not (isinstance(thr, ast.BinOp) and isinstance(thr.op, ast.Mult) and unparse(thr.right) == 'max_mag'):
        raise TranslateError('rotate: threshold is %s' % unparse(thr))
    factor = const_num(thr.left)
    # the two scaling loops
    loops = [s for s in strip_doc(fn) if isinstance(s, ast.For) and unparse(s.iter) in
             ('range(len(i_rotate1))', 'range(len(i_rotate2))')]
    if len(loops) != 2:
        raise TranslateError('rotate: scaling loops not found')
    res = {}
    for lp, (src_idx, own, cross) in zip(loops, (('i_rotate1', 'rotated1', 'rotated2'),
                                                 ('i_rotate2', 'rotated2', 'rotated1'))):
        body = [unparse(s) for s in lp.body]
        want_head = ['g = args[%s[i]]' % src_idx, 'max_mag = max(max_mag, __get_grad_abs_mag(g))',
                     '%s.append(scale_grad(grad=g, scale=np.cos(angle)))' % own]
        if body[:3] != want_head or len(body) != 6 or body[5] != '%s.append(g)' % cross:
            raise TranslateError('rotate: loop over %s has unexpected body %s' % (src_idx, body))
        if body[3] == 'g = scale_grad(grad=g, scale=np.sin(angle))':
            sign = 1
        elif body[3] == 'g = scale_grad(grad=g, scale=-np.sin(angle))':
            sign = -1
        else:
            raise TranslateError('rotate: cross term is %s' % body[3])
        if body[4] == 'g.channel = axes_to_rotate[1]':
            tgt = 1
        elif body[4] == 'g.channel = axes_to_rotate[0]':
            tgt = 0
        else:
            raise TranslateError('rotate: cross channel is %s' % body[4])
        res[src_idx] = (sign, tgt)
    # classification tests
    cls = [unparse(n.test) for n in ast.walk(fn) if isinstance(n, ast.If)]
    for t in ("event.type != 'grad' and event.type != 'trap' or event.channel == axis",
              'event.channel == axes_to_rotate[0]', 'event.channel == axes_to_rotate[1]'):
        if t not in cls:
            raise TranslateError('rotate: classification test `%s` not found' % t)
    elim = [unparse(n.test) for n in ast.walk(fn) if isinstance(n, ast.If) and 'threshold' in unparse(n.test)]
    if elim != ['__get_grad_abs_mag(rotated1[i]) < threshold', '__get_grad_abs_mag(rotated2[i]) < threshold',
                '__get_grad_abs_mag(g[i]) < threshold']:
        raise TranslateError('rotate: elimination tests are %s' % elim)
    return factor, res


def read_split_at():
    tree, _ = parse('split_gradient_at.py')
    fn = func(tree, 'split_gradient_at')
    _rounding_fields(fn, 'split_gradient_at')
    t_eps = const_num(assign_value(fn, 't_eps'))
    digs = []
    for n in ast.walk(fn):
        if isinstance(n, ast.Call) and unparse(n.func) == 'round' and len(n.args) == 2:
            digs.append(const_int(n.args[1]))
        if isinstance(n, ast.Call) and isinstance(n.func, ast.Attribute) and n.func.attr == 'round' \
                and unparse(n.func.value) == 'np.array(times)':
            digs.append(const_int(n.args[0]))
    if len(digs) != 2 or digs[0] != digs[1]:
        raise TranslateError('split_gradient_at: decimal rounding work-arounds are %s' % digs)
    tols = set()
    for n in ast.walk(fn):
        if isinstance(n, ast.Compare) and isinstance(n.ops[0], ast.Lt) and unparse(n.left).startswith('abs(grad.tt'):
            tols.add(const_num(n.comparators[0]))
    if len(tols) != 1:
        raise TranslateError('split_gradient_at: arbitrary-gradient tolerance not unique: %s' % tols)
    cmp_ = [unparse(n.test) for n in ast.walk(fn) if isinstance(n, ast.If)]
    for t in ('time_point >= grad.delay + times[-1]', 'time_point < grad.delay', 'grad.flat_time == 0'):
        if t not in cmp_:
            raise TranslateError('split_gradient_at: test `%s` not found' % t)
    return t_eps, digs[0], tols.pop()


def read_align():
    tree, _ = parse('align.py')
    fn = func(tree, 'align')
    opts = assign_value(fn, 'alignment_options')
    names = [e.value for e in opts.elts]
    if names != ['left', 'center', 'right']:
        raise TranslateError('align: alignment_options is %s' % names)
    # the re-timed copies drop the library id of the input: `if hasattr(objects[i], 'id'): delattr(objects[i], 'id')`
    # as the first statement of the delay loop
    loops = [n for n in ast.walk(fn) if isinstance(n, ast.For) and unparse(n.iter) == 'range(len(objects))']
    if len(loops) != 1:
        raise TranslateError('align: delay loop not found')
    first = loops[0].body[0]
    if not (isinstance(first, ast.If) and unparse(first.test) == "hasattr(objects[i], 'id')"
            and [unparse(b) for b in first.body] == ["delattr(objects[i], 'id')"] and not first.orelse):
        raise TranslateError('align: the copies do not drop the library id first (%s)' % unparse(first)[:80])
    return names


def read_mod_axis():
    """Sequence.mod_grad_axis: which columns of a library row are multiplied (all rows / additionally for 'g' rows)"""
    tree, _ = parse('Sequence/sequence.py')
    fn = method(tree, 'Sequence', 'mod_grad_axis')
    loops = [n for n in strip_doc(fn) if isinstance(n, ast.For) and unparse(n.iter) == 'selected_events']
    if len(loops) != 1:
        raise TranslateError('mod_grad_axis: loop over selected_events not found')
    body = loops[0].body

    def col(st):
        if isinstance(st, ast.AugAssign) and isinstance(st.op, ast.Mult) and unparse(st.value) == 'modifier' \
                and isinstance(st.target, ast.Subscript) and unparse(st.target.value) == 'data':
            return const_int(st.target.slice)
        raise TranslateError('mod_grad_axis: unexpected statement `%s`' % unparse(st)[:80])
    want_head = ['grad_type = self.grad_library.type[grad_id]', 'data = list(self.grad_library.data[grad_id])']
    if [unparse(b) for b in body[:2]] != want_head:
        raise TranslateError('mod_grad_axis: loop head is %s' % [unparse(b) for b in body[:2]])
    if unparse(body[-1]) != 'self.grad_library.update(grad_id, None, tuple(data), grad_type)':
        raise TranslateError('mod_grad_axis: loop does not end with the library update')
    cols_all, cols_g = [], []
    for st in body[2:-1]:
        if isinstance(st, ast.If):
            if unparse(st.test) != "grad_type == 'g'" or st.orelse:
                raise TranslateError('mod_grad_axis: unexpected test `%s`' % unparse(st.test))
            cols_g += [col(x) for x in st.body]
        else:
            cols_all.append(col(st))
    tail = [unparse(x) for x in strip_doc(fn)]
    if tail[-1] != 'self.block_cache.clear()':
        raise TranslateError('mod_grad_axis: the block cache is not cleared at the end')
    return cols_all, cols_g


def sec_gradops():
    factor, rot = read_rotate()
    ts, _ = parse('split_gradient.py')
    _rounding_fields(func(ts, 'split_gradient'), 'split_gradient')
    t_eps, digs, arb_tol = read_split_at()
    read_align()
    eps = read_eps()
    ma_all, ma_g = read_mod_axis()
    CONSTS['gradops'] = {'rot_factor': factor, 'rot': rot, 't_eps': t_eps, 'digits': digs, 'arb_tol': arb_tol,
                         'eps': eps}
    out = HEADER % 'rotate.py, split_gradient.py, split_gradient_at.py, align.py, __init__.py'
    out += 'Open Scope Q_scope.\n'
    out += '(* rotate.py: threshold = F * max_mag *)\n'
    out += 'Definition rot_elim_factor : Q := %s.\n' % coq_Q(factor)
    out += "(* rotate.py: axes = ['x','y','z'] *)\n"
    out += 'Definition rot_axes : list nat := [0; 1; 2]%nat.\n'
    out += '(* rotate.py: events of axes_to_rotate[0] get a cross term SIGN*sin on axes_to_rotate[TARGET] *)\n'
    out += 'Definition rot_cross1_sign : Q := %s.\n' % coq_Q(Fraction(rot['i_rotate1'][0]))
    out += 'Definition rot_cross1_target : nat := %d%%nat.\n' % rot['i_rotate1'][1]
    out += 'Definition rot_cross2_sign : Q := %s.\n' % coq_Q(Fraction(rot['i_rotate2'][0]))
    out += 'Definition rot_cross2_target : nat := %d%%nat.\n' % rot['i_rotate2'][1]
    out += '(* split_gradient.py / split_gradient_at.py: delay, rise, flat, fall are rounded to the raster with\n'
    out += '   round(x / raster) * raster (pattern verified by the translator) *)\n'
    out += 'Definition split_rounds_to_raster : bool := true.\n'
    out += '(* split_gradient_at.py *)\n'
    out += 'Definition split_t_eps : Q := %s.\n' % coq_Q(t_eps)
    out += 'Definition split_round_digits : Z := %d%%Z.\n' % digs
    out += 'Definition split_arb_tol : Q := %s.\n' % coq_Q(arb_tol)
    out += '(* align.py: alignment_options = [left; center; right] -> 0, 1, 2 *)\n'
    out += 'Definition align_left : nat := 0%nat.\nDefinition align_center : nat := 1%nat.\n'
    out += 'Definition align_right : nat := 2%nat.\n'
    out += '(* align.py: the re-timed copies drop the library id of the input event *)\n'
    out += 'Definition align_drops_id : bool := true.\n'
    out += "(* Sequence.mod_grad_axis: columns of a library row multiplied for every row / additionally for 'g' rows *)\n"
    out += 'Definition ma_cols_all : list nat := [%s]%%nat.\n' % '; '.join(str(k) for k in ma_all)
    out += 'Definition ma_cols_g : list nat := [%s]%%nat.\n' % '; '.join(str(k) for k in ma_g)
    out += '(* pypulseq.eps *)\n'
    out += 'Definition pp_eps : Q := %s.\n' % coq_Q(eps)
    return out


SECTIONS = {'GenGradOps': sec_gradops}


def _body(rel, name):
    tree, _ = parse(rel)
    return strip_doc(func(tree, name))


def _meth(name):
    tree, _ = parse('Sequence/sequence.py')
    return strip_doc(method(tree, 'Sequence', name))


FP_SOURCES = {
    'scale_grad': lambda: _body('scale_grad.py', 'scale_grad'),
    'split_gradient': lambda: _body('split_gradient.py', 'split_gradient'),
    'split_gradient_at': lambda: _body('split_gradient_at.py', 'split_gradient_at'),
    'align': lambda: _body('align.py', 'align'),
    'calc_duration': lambda: _body('calc_duration.py', 'calc_duration'),
    'make_extended_trapezoid': lambda: _body('make_extended_trapezoid.py', 'make_extended_trapezoid'),
    'rotate': lambda: _body('rotate.py', 'rotate'),
    'rotate.__get_grad_abs_mag': lambda: _body('rotate.py', '__get_grad_abs_mag'),
    'Sequence.mod_grad_axis': lambda: _meth('mod_grad_axis'),
    'Sequence.flip_grad_axis': lambda: _meth('flip_grad_axis'),
}
FP_GROUPS = {
    'FP_gradops18': ['scale_grad', 'split_gradient', 'split_gradient_at', 'align', 'calc_duration',
                     'make_extended_trapezoid', 'Sequence.mod_grad_axis', 'Sequence.flip_grad_axis'],
    'FP_gradops17': ['rotate', 'rotate.__get_grad_abs_mag', 'scale_grad'],
}
