"""gensec/addgrad.py — constants and structural facts of add_gradients.py (and the makers it calls)
that Model/AddGrad.v depends on.  Emits coq/Gen/GenAddGrad.v, fail-closed."""
import ast
import math
from fractions import Fraction

from translate import (parse, func, assign_value, const_num, coq_Q, unparse, fp, strip_doc, HEADER,
                       TranslateError, CONSTS)


def _eps():
    """pypulseq/__init__.py: eps = 10 ** np.floor(np.log10(np.spacing(1e6) * 10)) (evaluated here with math)"""
    tree, _ = parse('__init__.py')
    val = None
    for n in tree.body:
        if isinstance(n, ast.Assign) and len(n.targets) == 1 and unparse(n.targets[0]) == 'eps':
            val = n.value
    if val is None:
        raise TranslateError('`eps = ...` not found in pypulseq/__init__.py')
    txt = unparse(val)
    if txt == '10 ** np.floor(np.log10(np.spacing(1000000.0) * 10))':
        e = int(math.floor(math.log10(math.ulp(1e6) * 10)))
        return Fraction(10) ** e
    try:
        return const_num(val)
    except TranslateError:
        raise TranslateError('unsupported definition of eps: %s' % txt)


def _calls(fn, name):
    return [n for n in ast.walk(fn) if isinstance(n, ast.Call) and unparse(n.func) == name]


def _kw(call, key):
    for k in call.keywords:
        if k.arg == key:
            return unparse(k.value)
    return None


def _passes(call):
    """does the call forward the resolved limits?"""
    return _kw(call, 'max_grad') == 'max_grad' and _kw(call, 'max_slew') == 'max_slew'


def sec_addgrad():
    eps = _eps()
    tree, _ = parse('add_gradients.py')
    fn = func(tree, 'add_gradients')
    src = unparse(strip_doc(fn))
    # signature: the model takes the system as an explicit argument and resolves the limit overrides itself; the
    # code must take `system=None` (resolved to the CURRENT Opts.default inside the body on every call) and
    # `max_grad=0`, `max_slew=0`.  A default bound at import time (`system=Opts.default`), extra parameters,
    # *args/**kwargs or keyword-only parameters are outside the model: fail closed.
    a = fn.args
    names = [x.arg for x in a.args]
    defaults = [unparse(d) for d in a.defaults]
    if names != ['grads', 'max_grad', 'max_slew', 'system'] or defaults != ['0', '0', 'None'] \
            or a.vararg or a.kwarg or a.kwonlyargs or getattr(a, 'posonlyargs', []):
        raise TranslateError('add_gradients: signature changed: (%s) defaults %s' % (', '.join(names), defaults))
    first = [unparse(n) for n in strip_doc(fn)[:3]] if isinstance(strip_doc(fn), list) else []
    if not first or first[0] != 'if system is None:\n    system = Opts.default':
        raise TranslateError('add_gradients: `if system is None: system = Opts.default` must be the first statement')
    mt = _calls(fn, 'make_trapezoid')
    me = _calls(fn, 'make_extended_trapezoid')
    ma = _calls(fn, 'make_arbitrary_grad')
    if len(mt) != 1 or len(me) != 1 or len(ma) != 1:
        raise TranslateError('add_gradients: expected exactly one call of each maker (found %d/%d/%d)'
                             % (len(mt), len(me), len(ma)))
    # equal-timing path: amplitude=sum(...) + eps, timing of grads[0]
    amp = _kw(mt[0], 'amplitude')
    if amp != 'sum((g.amplitude for g in grads)) + eps':
        raise TranslateError('add_gradients: trapezoid path amplitude expression changed: %s' % amp)
    for k in ('rise_time', 'flat_time', 'fall_time', 'delay'):
        if _kw(mt[0], k) != 'grads[0].%s' % k:
            raise TranslateError('add_gradients: trapezoid path `%s=` changed: %s' % (k, _kw(mt[0], k)))
    if _kw(me[0], 'amplitudes') != 'amplitudes' or _kw(me[0], 'times') != 'times':
        raise TranslateError('add_gradients: make_extended_trapezoid arguments changed')
    if _kw(ma[0], 'waveform') != 'w' or _kw(ma[0], 'delay') != 'common_delay':
        raise TranslateError('add_gradients: make_arbitrary_grad arguments changed')
    # structural statements the hand-written model transcribes literally
    expect = [
        'is_arb.append(np.all(np.abs(tt_rast - np.arange(len(tt_rast)))) < eps)',
        'tt_rast = grads[ii].tt / system.grad_raster_time - 0.5',
        'if np.all(np.logical_or(is_trap, np.logical_not(is_arb))):',
        'times = np.unique(times)',
        'ieps = np.flatnonzero(dt < eps)',
        'if np.any(ieps):',
        'dtx[ieps] = dtx[ieps] + dtx[ieps + 1]',
        'dtx = np.delete(dtx, ieps + 1)',
        'if abs(waveform[0]) > eps and tt[0] > eps:',
        'tt[0] += eps',
        'amplitudes += np.interp(xp=tt, fp=waveform, x=times, left=0, right=0)',
        'common_delay = np.min(delays)',
        'if g.delay - common_delay > 0:',
        'waveforms[ii] = np.concatenate((np.zeros(round((g.delay - common_delay) / system.grad_raster_time)), waveforms[ii]))',
        'if max_grad <= 0:',
        'if max_slew <= 0:',
    ]
    for e in expect:
        if e not in src:
            raise TranslateError('add_gradients: statement not found: `%s`' % e)
    # points_to_waveform: centres = grid + raster/2
    t2, _ = parse('points_to_waveform.py')
    f2 = func(t2, 'points_to_waveform')
    s2 = unparse(strip_doc(f2))
    for e in ['waveform = np.interp(x=grd + grad_raster_time / 2, xp=times, fp=amplitudes)',
              'start=round(np.min(times) / grad_raster_time)', 'stop=round(np.max(times) / grad_raster_time)']:
        if e not in s2:
            raise TranslateError('points_to_waveform: statement not found: `%s`' % e)
    # limit tests of the three makers
    t3, _ = parse('make_extended_trapezoid.py')
    s3 = unparse(strip_doc(func(t3, 'make_extended_trapezoid')))
    for e in ['if max(abs(slew)) > max_slew * (1 + eps):', 'if max(abs(grad.waveform)) > max_grad + eps:',
              'if skip_check is False and times[0] > 0 and (amplitudes[0] != 0):',
              'grad.delay = round(times[0] / system.grad_raster_time) * system.grad_raster_time']:
        if e not in s3:
            raise TranslateError('make_extended_trapezoid: statement not found: `%s`' % e)
    t4, _ = parse('make_arbitrary_grad.py')
    s4 = unparse(strip_doc(func(t4, 'make_arbitrary_grad')))
    for e in ['if max(abs(slew_rate)) > max_slew * (1 + eps):', 'if max(abs(waveform)) > max_grad + eps:',
              'slew_rate = np.diff(waveform) / system.grad_raster_time']:
        if e not in s4:
            raise TranslateError('make_arbitrary_grad: statement not found: `%s`' % e)
    t5, _ = parse('make_trapezoid.py')
    s5 = unparse(strip_doc(func(t5, 'make_trapezoid')))
    for e in ['if abs(amplitude2) > max_grad + eps:', 'if abs(amplitude2) / rise_time > max_slew * (1 + eps):',
              'if abs(amplitude2) / fall_time > max_slew * (1 + eps):']:
        if e not in s5:
            raise TranslateError('make_trapezoid: statement not found: `%s`' % e)
    # selection of the inputs that start first / end last: exact float equality or |difference| < eps
    exact = ('grad.first = np.sum(firsts[np.array(delays) == common_delay])' in src
             and 'grad.last = np.sum(lasts[durs == durs.max()])' in src)
    toler = ('grad.first = np.sum(firsts[np.abs(np.array(delays) - common_delay) < eps])' in src
             and 'grad.last = np.sum(lasts[np.abs(durs - durs.max()) < eps])' in src)
    if exact == toler:
        raise TranslateError('add_gradients: selection of first/last contributors changed')
    tol = Fraction(0) if exact else eps
    for nm, c in (('make_trapezoid', mt[0]), ('make_extended_trapezoid', me[0]), ('make_arbitrary_grad', ma[0])):
        if _kw(c, 'system') != 'system':
            raise TranslateError('add_gradients: %s is not called with system=system' % nm)
    pt, pe, pa = _passes(mt[0]), _passes(me[0]), _passes(ma[0])
    CONSTS['addgrad'] = {'eps': eps, 'trap_passes_limits': pt, 'ext_passes_limits': pe, 'arb_passes_limits': pa, 'startend_tol': tol}
    b = lambda x: 'true' if x else 'false'
    out = HEADER % 'add_gradients.py, points_to_waveform.py, make_*.py, __init__.py (eps)'
    out += 'Open Scope Q_scope.\n\n'
    out += '(* pypulseq.eps *)\nDefinition ag_eps : Q := %s.\n\n' % coq_Q(eps)
    out += ('(* does add_gradients forward its resolved max_grad/max_slew to the maker of each path? *)\n'
            'Definition ag_trap_passes_limits : bool := %s.\n'
            'Definition ag_ext_passes_limits : bool := %s.\n'
            'Definition ag_arb_passes_limits : bool := %s.\n' % (b(pt), b(pe), b(pa)))
    out += ('\n(* inputs whose delay (duration) is within this of the smallest delay (largest duration) contribute to\n'
            '   first (last) on the raster path; 0 = exact equality `==` *)\n'
            'Definition ag_startend_tol : Q := %s.\n' % coq_Q(tol))
    return out


SECTIONS = {'GenAddGrad': sec_addgrad}


def _fp_add():
    # the forwarding of max_grad/max_slew to the makers is a generated constant of the model
    # (ag_*_passes_limits), so it is removed before fingerprinting: the repaired and the unrepaired
    # source have the same fingerprint
    tree, _ = parse('add_gradients.py')
    fn = strip_doc(func(tree, 'add_gradients'))
    nodes = fn if isinstance(fn, list) else [fn]
    for top in nodes:
        for n in ast.walk(top):
            if isinstance(n, ast.Call) and unparse(n.func) in ('make_trapezoid', 'make_extended_trapezoid',
                                                               'make_arbitrary_grad'):
                n.keywords = [k for k in n.keywords if k.arg not in ('max_grad', 'max_slew')]
    # the first/last selection form is a generated constant too (ag_startend_tol)
    nodes = [n for n in nodes if not (isinstance(n, ast.Assign) and unparse(n.targets[0]) in ('grad.first', 'grad.last'))]
    return nodes


def _fp_p2w():
    tree, _ = parse('points_to_waveform.py')
    return strip_doc(func(tree, 'points_to_waveform'))


def _fp_ext():
    tree, _ = parse('make_extended_trapezoid.py')
    return strip_doc(func(tree, 'make_extended_trapezoid'))


def _fp_arb():
    tree, _ = parse('make_arbitrary_grad.py')
    return strip_doc(func(tree, 'make_arbitrary_grad'))


FP_SOURCES = {'add_gradients': _fp_add, 'points_to_waveform': _fp_p2w,
              'make_extended_trapezoid': _fp_ext, 'make_arbitrary_grad': _fp_arb}
FP_GROUPS = {'FP_addgrad': ['add_gradients', 'points_to_waveform', 'make_extended_trapezoid', 'make_arbitrary_grad']}
