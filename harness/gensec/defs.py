"""gensec/defs.py — translator plug-in for the [DEFINITIONS] value model (coq/Model/Defs.v).

Checks, fail-closed, the statements of write_seq.py:58-77 and read_seq.py::__read_definitions / __strip_line that the
model transcribes (one separator blank after the key and after every value, ints and floats printed by the same format,
text written verbatim; the line stripped, split at that very separator, numbers iff every piece passes float(), else the
stripped rest of the line) and emits coq/Gen/GenDefs.v with the separator character."""
import ast

from translate import parse, func, unparse, HEADER, TranslateError, CONSTS

W = 'Sequence/write_seq.py'
R = 'Sequence/read_seq.py'


def expect(cond, msg):
    if not cond:
        raise TranslateError('definitions: ' + msg)


def defs_branch():
    tree, _ = parse(W)
    fn = func(tree, 'write')
    for n in ast.walk(fn):
        if isinstance(n, ast.If) and unparse(n.test) == 'len(self.definitions) != 0':
            return n
    raise TranslateError('definitions: `if len(self.definitions) != 0:` not found')


def number_types(test):
    """isinstance(x, (int, float[, np.integer, np.floating])) -> the tuple of type names"""
    if not (isinstance(test, ast.Call) and unparse(test.func) == 'isinstance' and len(test.args) == 2
            and isinstance(test.args[1], ast.Tuple)):
        raise TranslateError('definitions: number test is not isinstance(x, (...)): %s' % unparse(test))
    return [unparse(e) for e in test.args[1].elts]


def sec_defs():
    b = defs_branch()
    src = unparse(b)
    expect('keys = sorted(self.definitions.keys())' in src, 'keys are not sorted')
    loops = [n for n in b.body if isinstance(n, ast.For)]
    expect(len(loops) == 1, 'one loop over the keys expected')
    body = loops[0].body
    expect(unparse(body[0]) == "output_file.write(f'{keys[block_counter]} ')", 'key is not followed by one blank')
    chain = body[1]
    expect(isinstance(chain, ast.If) and unparse(chain.test) == 'isinstance(values[block_counter], str)'
           and [unparse(s) for s in chain.body] == ["output_file.write(values[block_counter] + ' ')"], 'text branch changed')
    num = chain.orelse[0]
    expect(isinstance(num, ast.If), 'number branch missing')
    types = number_types(num.test)
    expect('int' in types and 'float' in types and unparse(num.test.args[0]) == 'values[block_counter]',
           'Python ints and floats are no longer handled by ONE branch: %s' % types)
    expect([unparse(s) for s in num.body] == ["output_file.write(f'{values[block_counter]:0.9g} ')"], 'number format changed')
    lst = num.orelse[0]
    expect(isinstance(lst, ast.If) and unparse(lst.test) == 'isinstance(values[block_counter], (list, tuple, np.ndarray))',
           'list branch changed')
    inner = [n for n in ast.walk(lst) if isinstance(n, ast.If) and n is not lst]
    expect(len(inner) == 1, 'list element branch changed')
    itypes = number_types(inner[0].test)
    expect('int' in itypes and 'float' in itypes and set(itypes) == set(types), 'list elements use other number types than scalars')
    expect([unparse(s) for s in inner[0].body] == ["output_file.write(f'{values[block_counter][i]:0.9g} ')"]
           and [unparse(s) for s in inner[0].orelse] == ["output_file.write(f'{values[block_counter][i]} ')"], 'list element formats changed')
    expect(unparse(body[-1]) == "output_file.write('\\n')", 'line end changed')
    # reader
    tree, _ = parse(R)
    rd = func(tree, '__read_definitions')
    rsrc = unparse(rd)
    for frag in ("tok = line.split(' ')", '[float(x) for x in tok[1:]]', 'value = np.array(tok[1:], dtype=float)',
                 'if len(value) == 1:', 'value = value[0]', 'definitions[tok[0]] = value',
                 'definitions[tok[0]] = line[len(tok[0]) + 1:].strip()', 'line = __strip_line(input_file)'):
        expect(frag in rsrc, '__read_definitions: expected `%s`' % frag)
    sl = func(tree, '__strip_line')
    expect("return line.strip() if line != '' else -1" in unparse(sl), '__strip_line changed')
    CONSTS['defs_number_types'] = types
    out = HEADER % 'Sequence/write_seq.py ([DEFINITIONS] writer), Sequence/read_seq.py (__read_definitions, __strip_line)'
    out += 'Definition defs_separator : Z := (%d)%%Z.   (* the blank written after the key and after every value, and split at *)\n' % ord(' ')
    out += 'Definition defs_numpy_numbers_formatted : bool := %s.   (* np.integer / np.floating take the number branch *)\n' % (
        'true' if 'np.integer' in types and 'np.floating' in types else 'false')
    return out


SECTIONS = {'GenDefs': sec_defs}


def _fn(rel, name):
    tree, _ = parse(rel)
    f = func(tree, name)
    return f.body


FP_SOURCES = {
    'write_seq.write.definitions': lambda: [defs_branch()],
    'read_seq.__read_definitions': lambda: _fn(R, '__read_definitions'),
    'read_seq.__strip_line': lambda: _fn(R, '__strip_line'),
}
FP_GROUPS = {'FP_definitions': list(FP_SOURCES)}
