"""gensec/trap.py — translator plug-in for C11 (make_trapezoid).

Reads, with `ast` only, from src/pypulseq/make_trapezoid.py and src/pypulseq/__init__.py:
  * the tolerance `eps` (defining expression of pypulseq.eps must be the known one, or a literal),
  * every arithmetic expression / comparison the hand-written model Model/Trap.v transcribes
    (raster roundings, slack terms of the limit checks, the amplitude formulas of each branch, the
    derived `area` / `flat_area` fields), as unparsed strings compared with the expected ones.
Fail-closed: any difference raises TranslateError, the Gen file is not rewritten and C11 reports that
its proof no longer checks (then searches for a failing input).
Fingerprints of the two function bodies escalate the correspondence when anything else changes.
"""
import ast
from fractions import Fraction

from translate import (parse, func, const_num, coq_Q, unparse, strip_doc, HEADER, TranslateError, CONSTS)

FILE = 'make_trapezoid.py'

EPS_EXPR = '10 ** np.floor(np.log10(np.spacing(1000000.0) * 10))'   # = 1e-9 for binary64 (np.spacing(1e6)=1.16e-10)


def read_eps():
    tree, _ = parse('__init__.py')
    vals = [n.value for n in tree.body
            if isinstance(n, ast.Assign) and len(n.targets) == 1 and isinstance(n.targets[0], ast.Name)
            and n.targets[0].id == 'eps']
    if len(vals) != 1:
        raise TranslateError('expected exactly one module-level assignment to eps, found %d' % len(vals))
    v = vals[0]
    if unparse(v) == EPS_EXPR:
        return Fraction(1, 10 ** 9)
    try:
        return const_num(v)
    except TranslateError:
        raise TranslateError('pypulseq.eps is defined by an unknown expression: %s' % unparse(v))


def assigns(fn, name):
    """values of all simple assignments `name = expr` in fn, in source order"""
    out = []
    for n in ast.walk(fn):
        if isinstance(n, ast.Assign) and len(n.targets) == 1 and isinstance(n.targets[0], ast.Name) \
                and n.targets[0].id == name:
            out.append((n.lineno, n.col_offset, unparse(n.value)))
    return [v for _, _, v in sorted(out)]


def attr_assign(fn, target):
    out = [unparse(n.value) for n in ast.walk(fn)
           if isinstance(n, ast.Assign) and len(n.targets) == 1 and unparse(n.targets[0]) == target]
    if len(out) != 1:
        raise TranslateError('expected exactly one assignment to %s, found %d' % (target, len(out)))
    return out[0]


def if_tests(fn):
    out = []
    for n in ast.walk(fn):
        if isinstance(n, ast.If):
            out.append((n.lineno, unparse(n.test)))
    return [t for _, t in sorted(out)]


def expect(what, got, want):
    if got != want:
        raise TranslateError('%s: expected `%s`, found `%s`' % (what, want, got))


# expressions of calculate_shortest_params_for_area, in source order
SHORTEST = {
    'rise_time': ['math.ceil(math.sqrt(abs(area) / max_slew) / grad_raster_time) * grad_raster_time',
                  'max(rise_time, grad_raster_time)',
                  'math.ceil(abs(amplitude) / max_slew / grad_raster_time) * grad_raster_time',
                  'max(rise_time, grad_raster_time)'],
    'amplitude': ['area / rise_time', 'area / effective_time'],
    'effective_time': ['rise_time', 'math.ceil(abs(area) / max_grad / grad_raster_time) * grad_raster_time'],
    'flat_time': ['effective_time - rise_time'],
    'fall_time': ['rise_time'],
}
SHORTEST_TESTS = ['abs(amplitude) > max_grad + eps']
SHORTEST_RISE_RET = 'math.ceil(max(abs(amplitude) / max_slew, grad_raster_time) / grad_raster_time) * grad_raster_time'

# make_trapezoid: every assignment to the timing / amplitude variables, in source order
MAIN = {
    'max_grad': ['system.max_grad'],
    'max_slew': ['system.max_slew'],
    'rise_time': ['rise_time or fall_time',
                  'abs(amplitude) / max_slew',
                  'math.ceil(rise_time / system.grad_raster_time) * system.grad_raster_time',
                  'system.grad_raster_time'],
    'fall_time': ['fall_time or rise_time', 'rise_time', 'rise_time'],
    'min_duration': ['rise_time + flat_time + fall_time'],
    'amplitude2': ['(duration - math.sqrt(duration ** 2 - 4 * abs(area) * dc)) / (2 * dc)',   # dead value, overwritten
                   'area / (duration - 0.5 * rise_time - 0.5 * fall_time)',
                   'area / (rise_time / 2 + fall_time / 2 + flat_time)',
                   'area / (rise_time / 2 + fall_time / 2 + flat_time)',
                   'flat_area / flat_time',
                   'amplitude'],
}
# The two places where a repair has been PROPOSED but is not (yet) in the repository.  The model
# (Model/Trap.v) implements both forms of each, selected by the Gen constants below; EXPECT says which form
# the repository is expected to have — any other form fails closed.  When a proposed repair is committed to
# the repository, flip the corresponding flag here (the oracle of harness/props/C11.py follows EXPECT).
EXPECT = {
    'possible_tolerant': False,       # /tmp/c11_fixA.patch: `duration >= rise + fall - eps`, flat_time = max(..., 0.0)
    'flat_checks_duration': True,     # committed to /repo as 14663aa (was /tmp/c11_fixC.patch): area + flat_time + duration must be consistent
}
POSSIBLE = {
    False: {'possible': ['duration >= rise_time + fall_time and abs(amplitude2) <= max_grad'],
            'flat_time': ['duration - rise_time - fall_time', 'duration - rise_time - fall_time', '0.0']},
    True: {'possible': ['duration >= rise_time + fall_time - eps and abs(amplitude2) <= max_grad'],
           'flat_time': ['max(duration - rise_time - fall_time, 0.0)', 'duration - rise_time - fall_time', '0.0']},
}
FLAT_DURATION_TEST = 'duration is not None and abs(duration - (rise_time + flat_time + fall_time)) > eps'
MAIN_TESTS = [
    'system is None',
    "channel not in ['x', 'y', 'z']",
    'max_grad is None',
    'max_slew is None',
    'area is not None and flat_area is None and (amplitude is None)',
    'area is None and flat_area is not None and (amplitude is None)',
    'area is None and flat_area is None and (amplitude is not None)',
    'area is None and flat_area is not None and (amplitude is not None)',
    'area is not None and flat_area is None and (amplitude is not None)',
    'flat_time is not None and flat_area is None and (amplitude is None) and (rise_time is None or area is None)',
    "calc_path == 'area'",
    'duration is not None and flat_time is None',
    'rise_time is None',
    'duration <= rise_time + eps',
    'fall_time is None',
    'flat_time is not None',
    'rise_time is None',
    '@FLAT_DURATION_TEST@',
    'rise_time is not None or fall_time is not None',
    "calc_path == 'flat_area'",
    'duration is not None',
    'flat_time is not None',
    "calc_path == 'amplitude'",
    'rise_time is None',
    'rise_time == 0',
    'duration is not None and flat_time is None',
    'flat_time is not None and duration is None',
    'rise_time is None and fall_time is None',
    'abs(amplitude2) > max_grad + eps',
    'abs(amplitude2) / rise_time > max_slew * (1 + eps)',
    'abs(amplitude2) / fall_time > max_slew * (1 + eps)',
    '-eps < flat_time < 0',
    'rise_time <= 0 or fall_time <= 0 or flat_time < 0',
    'trace_enabled()',
]
FIELDS = {
    'grad.amplitude': 'amplitude2',
    'grad.rise_time': 'rise_time',
    'grad.flat_time': 'flat_time',
    'grad.fall_time': 'fall_time',
    'grad.area': 'amplitude2 * (flat_time + rise_time / 2 + fall_time / 2)',
    'grad.flat_area': 'amplitude2 * flat_time',
    'grad.delay': 'delay',
}


def sec_trap():
    eps = read_eps()
    if not (0 <= eps < Fraction(1, 1000)):
        raise TranslateError('eps = %s outside the range the model was validated for' % eps)
    tree, _ = parse(FILE)
    sp = func(tree, 'calculate_shortest_params_for_area')
    for name, want in SHORTEST.items():
        expect('calculate_shortest_params_for_area: assignments to %s' % name, assigns(sp, name), want)
    expect('calculate_shortest_params_for_area: if tests', if_tests(sp), SHORTEST_TESTS)
    rets = [unparse(n.value) for n in ast.walk(sp) if isinstance(n, ast.Return)]
    expect('calculate_shortest_params_for_area: return', rets, ['(amplitude, rise_time, flat_time, fall_time)'])
    sr = func(tree, 'calculate_shortest_rise_time')
    rets = [unparse(n.value) for n in ast.walk(sr) if isinstance(n, ast.Return)]
    expect('calculate_shortest_rise_time: return', rets, [SHORTEST_RISE_RET])
    mt = func(tree, 'make_trapezoid')
    for name, want in MAIN.items():
        expect('make_trapezoid: assignments to %s' % name, assigns(mt, name), want)
    # form of the `possible` test / flat_time of the area + duration branch
    tolerant = None
    for flag, forms in POSSIBLE.items():
        if all(assigns(mt, name) == want for name, want in forms.items()):
            tolerant = flag
    if tolerant is None:
        raise TranslateError('make_trapezoid: `possible` / `flat_time` assignments match neither known form: %s / %s'
                             % (assigns(mt, 'possible'), assigns(mt, 'flat_time')))
    tests = if_tests(mt)
    checks_duration = FLAT_DURATION_TEST in tests
    want_tests = [t for t in MAIN_TESTS if t != '@FLAT_DURATION_TEST@' or checks_duration]
    want_tests = [FLAT_DURATION_TEST if t == '@FLAT_DURATION_TEST@' else t for t in want_tests]
    expect('make_trapezoid: if tests', tests, want_tests)
    # the ramp selection after the calculation paths is a two-target assignment; no other chained assignment,
    # augmented assignment, conditional expression or `or`-default may hide a branch of the timing selection
    multi = sorted((n.lineno, ' = '.join(unparse(t) for t in n.targets) + ' = ' + unparse(n.value))
                   for n in ast.walk(mt) if isinstance(n, ast.Assign) and len(n.targets) > 1)
    expect('make_trapezoid: chained assignments', [m for _, m in multi],
           ['rise_time = fall_time = calculate_shortest_rise_time(amplitude2, max_slew, system.grad_raster_time)'])
    extra = [type(n).__name__ for n in ast.walk(mt)
             if isinstance(n, (ast.AugAssign, ast.IfExp, ast.NamedExpr, ast.While, ast.For, ast.Try, ast.Lambda))]
    expect('make_trapezoid: statement kinds outside the transcribed ones', extra, [])
    boolops = sorted(unparse(n) for n in ast.walk(mt) if isinstance(n, ast.BoolOp) and isinstance(n.op, ast.Or))
    expect('make_trapezoid: `or` expressions', boolops,
           sorted(['rise_time or fall_time', 'fall_time or rise_time', 'rise_time is None or area is None',
                   'rise_time is not None or fall_time is not None',
                   'rise_time <= 0 or fall_time <= 0 or flat_time < 0']))
    # which fields of the system the function reads, and which functions it calls
    for fn_, name_, want_attrs in ((mt, 'make_trapezoid', ['grad_raster_time', 'max_grad', 'max_slew']),
                                  (sp, 'calculate_shortest_params_for_area', []),
                                  (sr, 'calculate_shortest_rise_time', [])):
        attrs = sorted({n.attr for n in ast.walk(fn_) if isinstance(n, ast.Attribute)
                        and isinstance(n.value, ast.Name) and n.value.id == 'system'})
        expect('%s: fields of `system` read' % name_, attrs, want_attrs)
    calls = sorted({unparse(n.func) for n in ast.walk(mt) if isinstance(n, ast.Call)})
    expect('make_trapezoid: functions called', calls,
           sorted(['NotImplementedError', 'SimpleNamespace', 'ValueError', 'abs', 'calculate_shortest_params_for_area',
                   'calculate_shortest_rise_time', 'math.ceil', 'math.sqrt', 'round', 'trace', 'trace_enabled',
                   'warnings.warn'] + (['max'] if tolerant else [])))
    for fn_, name_, want_calls in ((sp, 'calculate_shortest_params_for_area', ['abs', 'math.ceil', 'math.sqrt', 'max']),
                                  (sr, 'calculate_shortest_rise_time', ['abs', 'math.ceil', 'max'])):
        calls = sorted({unparse(n.func) for n in ast.walk(fn_) if isinstance(n, ast.Call)})
        expect('%s: functions called' % name_, calls, want_calls)
    # module-level state (memo tables ...) next to the three functions
    mod_names = sorted(t.id for n in tree.body if isinstance(n, (ast.Assign, ast.AnnAssign))
                       for t in (n.targets if isinstance(n, ast.Assign) else [n.target]) if isinstance(t, ast.Name))
    expect('make_trapezoid.py: module-level variables', mod_names, [])
    if tolerant != EXPECT['possible_tolerant']:
        raise TranslateError('make_trapezoid: the `possible` test of the area + duration branch is %s, expected %s'
                             % ('eps-tolerant' if tolerant else 'exact', 'eps-tolerant' if EXPECT['possible_tolerant'] else 'exact'))
    if checks_duration != EXPECT['flat_checks_duration']:
        raise TranslateError('make_trapezoid: the area + flat_time branch %s `duration`, expected that it %s'
                             % ('checks' if checks_duration else 'ignores',
                                'checks it' if EXPECT['flat_checks_duration'] else 'ignores it'))
    for tgt, want in FIELDS.items():
        expect('make_trapezoid: %s' % tgt, attr_assign(mt, tgt), want)
    # the two assertions of the area + duration branch
    asserts = [unparse(n.test) for n in ast.walk(mt) if isinstance(n, ast.Assert)]
    expect('make_trapezoid: assert tests', asserts, ['duration >= min_duration', 'possible'])
    # default of delay
    names = [a.arg for a in mt.args.args]
    defaults = dict(zip(names[len(names) - len(mt.args.defaults):], mt.args.defaults))
    want_args = ['channel', 'amplitude', 'area', 'delay', 'duration', 'fall_time', 'flat_area', 'flat_time',
                 'max_grad', 'max_slew', 'rise_time', 'system']
    expect('make_trapezoid: parameters', names, want_args)
    for k in want_args[1:]:
        d = unparse(defaults[k])
        expect('make_trapezoid: default of %s' % k, d, '0' if k == 'delay' else 'None')
    CONSTS['trap_eps'] = eps
    out = HEADER % 'make_trapezoid.py, __init__.py (eps)'
    out += '(* pypulseq.eps: tolerance added to max_grad, (1+eps) factor on max_slew, slack of the duration checks *)\n'
    out += 'Definition trap_eps : Q := %s.\n' % coq_Q(eps)
    out += '(* default of the `delay` parameter *)\n'
    out += 'Definition trap_default_delay : Q := %s.\n' % coq_Q(const_num(defaults['delay']))
    out += '(* form of the area + duration + ramps feasibility test: eps-tolerant with flat_time clamped at 0? *)\n'
    out += 'Definition trap_possible_tolerant : bool := %s.\n' % ('true' if tolerant else 'false')
    out += '(* does the area + flat_time branch reject a duration inconsistent with rise + flat + fall? *)\n'
    out += 'Definition trap_flat_checks_duration : bool := %s.\n' % ('true' if checks_duration else 'false')
    CONSTS['trap_possible_tolerant'] = tolerant
    CONSTS['trap_flat_checks_duration'] = checks_duration
    return out


def _fn_body(name):
    def get():
        tree, _ = parse(FILE)
        return strip_doc(func(tree, name))
    return get


SECTIONS = {'GenTrap': sec_trap}
FP_SOURCES = {
    'make_trapezoid': _fn_body('make_trapezoid'),
    'calculate_shortest_params_for_area': _fn_body('calculate_shortest_params_for_area'),
    'calculate_shortest_rise_time': _fn_body('calculate_shortest_rise_time'),
}
FP_GROUPS = {'FP_trap': ['make_trapezoid', 'calculate_shortest_params_for_area', 'calculate_shortest_rise_time']}
