"""gensec/file.py — translator plug-in for C01/C02: the per-section column tables of the .seq format.

Reads, with `ast` only and fail-closed:
  * Sequence/write_seq.py: for every section the format string (split into per-column conversions:
    `{:.0f}`/`{:Nd}`/`{:N.0f}` -> integer, `{:g}`/`{:12g}` -> 6 significant digits, `{:.9g}`/`{:0.9g}` ->
    9 significant digits, `{}` -> label string), the per-column multiplier (`* 1e6`, `np.multiply(..., [..])`,
    `* np.array([..])`) and the rounding call applied before formatting (`round`, `np.round`, the raster
    rounding of the RF delay), the block-duration expression and the definitions/shape formats;
  * Sequence/read_seq.py: the scale tuples of the version-1.4 branch of every `__read_events` call, the
    `append=` argument of the ADC section, the block-duration product and which `self.<attr>` is assigned
    from which `[DEFINITIONS]` key.
Emits coq/Gen/GenFile.v.  A column is the tuple (write multiplier, pre-rounding code, format code, read scale):
  pre 0 = none, 1 = round(value*mult), 2 = round(value/rf_raster)*rf_raster*mult;
  fmt 0 = integer, n>0 = n significant digits, -1 = string taken from the label table.
"""
import ast
import re
from fractions import Fraction

from translate import (parse, func, const_num, coq_Q, coq_Z, unparse, HEADER, TranslateError, CONSTS, strip_doc)

W = 'Sequence/write_seq.py'
R = 'Sequence/read_seq.py'


# ---- format strings ---------------------------------------------------------------------------
def split_format(s):
    """'{:.0f} {:12g} ...\\n' -> list of format codes"""
    if not s.endswith('\n'):
        raise TranslateError('format string does not end with a newline: %r' % s)
    parts = s[:-1].split(' ')
    out = []
    for p in parts:
        m = re.fullmatch(r'\{(?::([^}]*))?\}', p)
        if not m:
            raise TranslateError('unsupported format field %r in %r' % (p, s))
        out.append(fmt_code(m.group(1)))
    return out


def fmt_code(spec):
    if spec is None or spec == '':
        return -1
    m = re.fullmatch(r'(\d*)(?:\.(\d+))?([gfd])', spec)
    if not m:
        raise TranslateError('unsupported format spec %r' % spec)
    width, prec, ty = m.groups()
    if ty == 'd':
        if prec is not None:
            raise TranslateError('precision on integer format %r' % spec)
        return 0
    if ty == 'f':
        if prec != '0':
            raise TranslateError('only .0f is supported, found %r' % spec)
        return 0
    # g
    if prec is None:
        return 6
    p = int(prec)
    if p < 1:
        raise TranslateError('g precision must be >= 1: %r' % spec)
    return p


def str_const(node):
    if isinstance(node, ast.Constant) and isinstance(node.value, str):
        return node.value
    raise TranslateError('string literal expected: %s' % unparse(node)[:60])


def num_list(node):
    if isinstance(node, ast.Call) and unparse(node.func) == 'np.array' and len(node.args) == 1:
        node = node.args[0]
    if isinstance(node, (ast.List, ast.Tuple)):
        return [const_num(e) for e in node.elts]
    raise TranslateError('list of numbers expected: %s' % unparse(node)[:60])


def section_if(fn, test_src):
    for n in ast.walk(fn):
        if isinstance(n, ast.If) and unparse(n.test) == test_src:
            return n
    raise TranslateError('`if %s:` not found in write()' % test_src)


def fmt_assign(node, name='id_format_str'):
    vals = [n.value for n in ast.walk(node) if isinstance(n, ast.Assign) and len(n.targets) == 1
            and unparse(n.targets[0]) == name]
    if len(vals) != 1:
        raise TranslateError('expected one assignment to %s in section, found %d' % (name, len(vals)))
    return vals[0]


def the_format_call(node):
    calls = [n for n in ast.walk(node) if isinstance(n, ast.Call) and unparse(n.func) == 'id_format_str.format']
    if len(calls) != 1:
        raise TranslateError('expected one id_format_str.format(...) call, found %d' % len(calls))
    return calls[0]


def expect(cond, msg):
    if not cond:
        raise TranslateError(msg)


def write_tables():
    tree, _ = parse(W)
    fn = func(tree, 'write')
    T = {}
    one = Fraction(1)

    # ---- [RF]
    sec = section_if(fn, 'len(self.rf_library.data) != 0')
    f = split_format(str_const(fmt_assign(sec)))
    call = the_format_call(sec)
    expect(unparse(call) == 'id_format_str.format(k, *lib_data1, delay, *lib_data2)', 'RF: format arguments changed: ' + unparse(call))
    assigns = {unparse(n.targets[0]): n.value for n in ast.walk(sec) if isinstance(n, ast.Assign) and len(n.targets) == 1}
    expect(unparse(assigns.get('lib_data1')) == 'self.rf_library.data[k][0:4]', 'RF: lib_data1 slice changed')
    expect(unparse(assigns.get('lib_data2')) == 'self.rf_library.data[k][5:7]', 'RF: lib_data2 slice changed')
    d = assigns.get('delay')
    # round(self.rf_library.data[k][4] / self.rf_raster_time) * self.rf_raster_time * 1e6
    ok = (isinstance(d, ast.BinOp) and isinstance(d.op, ast.Mult) and isinstance(d.left, ast.BinOp)
          and isinstance(d.left.op, ast.Mult) and unparse(d.left.right) == 'self.rf_raster_time'
          and unparse(d.left.left) == 'round(self.rf_library.data[k][4] / self.rf_raster_time)')
    expect(ok, 'RF: delay expression changed: ' + (unparse(d) if d is not None else 'missing'))
    dm = const_num(d.right)
    expect(len(f) == 8, 'RF: 8 columns expected')
    T['rf'] = [(one, 0, f[0])] + [(one, 0, c) for c in f[1:5]] + [(dm, 2, f[5])] + [(one, 0, c) for c in f[6:8]]

    # ---- [GRADIENTS]
    sec = section_if(fn, 'np.any(arb_grad_mask)')
    f = split_format(str_const(fmt_assign(sec)))
    call = the_format_call(sec)
    expect(len(call.args) == 3 and unparse(call.args[0]) == 'k'
           and unparse(call.args[1]) == '*self.grad_library.data[k][:3]', 'GRADIENTS: format arguments changed')
    a = call.args[2]
    ok = (isinstance(a, ast.Call) and unparse(a.func) in ('round', 'np.round') and isinstance(a.args[0], ast.BinOp)
          and isinstance(a.args[0].op, ast.Mult) and unparse(a.args[0].left) == 'self.grad_library.data[k][3]')
    expect(ok, 'GRADIENTS: delay expression changed: ' + unparse(a))
    expect(len(f) == 5, 'GRADIENTS: 5 columns expected')
    T['grad'] = [(one, 0, c) for c in f[0:4]] + [(const_num(a.args[0].right), 1, f[4])]
    expect(unparse(assign_in(fn, 'arb_grad_mask')) == "grad_lib_values == 'g' if self.grad_library.type else False",
           'arbitrary-gradient mask changed')
    expect(unparse(assign_in(fn, 'trap_grad_mask')) == "grad_lib_values == 't' if self.grad_library.type else False",
           'trapezoid mask changed')

    # ---- [TRAP]
    sec = section_if(fn, 'np.any(trap_grad_mask)')
    f = split_format(str_const(fmt_assign(sec)))
    call = the_format_call(sec)
    expect(unparse(call) == 'id_format_str.format(k, *data)', 'TRAP: format arguments changed')
    sub = [n for n in ast.walk(sec) if isinstance(n, ast.Assign) and unparse(n.targets[0]) == 'data[1:]']
    expect(len(sub) == 1, 'TRAP: `data[1:] = ...` not found')
    v = sub[0].value
    ok = (isinstance(v, ast.Call) and unparse(v.func) in ('np.round', 'round') and isinstance(v.args[0], ast.BinOp)
          and isinstance(v.args[0].op, ast.Mult))
    expect(ok, 'TRAP: rounding expression changed: ' + unparse(v))
    l, r = v.args[0].left, v.args[0].right
    if unparse(r) == 'data[1:]':
        tm = const_num(l)
    elif unparse(l) == 'data[1:]':
        tm = const_num(r)
    else:
        raise TranslateError('TRAP: multiplier pattern changed: ' + unparse(v))
    expect(len(f) == 6, 'TRAP: 6 columns expected')
    T['trap'] = [(one, 0, f[0]), (one, 0, f[1])] + [(tm, 1, c) for c in f[2:6]]

    # ---- [ADC]
    sec = section_if(fn, 'len(self.adc_library.data) != 0')
    f = split_format(str_const(fmt_assign(sec)))
    call = the_format_call(sec)
    expect(unparse(call) == 'id_format_str.format(k, *data)', 'ADC: format arguments changed')
    dv = [n.value for n in ast.walk(sec) if isinstance(n, ast.Assign) and unparse(n.targets[0]) == 'data']
    expect(len(dv) == 1 and isinstance(dv[0], ast.Call) and unparse(dv[0].func) == 'np.multiply'
           and unparse(dv[0].args[0]) == 'self.adc_library.data[k][0:5]', 'ADC: np.multiply pattern changed')
    am = num_list(dv[0].args[1])
    expect(len(f) == 6 and len(am) == 5, 'ADC: 6 columns / 5 multipliers expected')
    T['adc'] = [(one, 0, f[0])] + [(m, 0, c) for m, c in zip(am, f[1:])]

    # ---- [EXTENSIONS]
    sec = section_if(fn, 'len(self.extensions_library.data) != 0')
    f = split_format(str_const(fmt_assign(sec)))
    call = the_format_call(sec)
    expect(unparse(call) == 'id_format_str.format(k, *np.round(self.extensions_library.data[k]))', 'EXTENSIONS: arguments changed')
    expect(len(f) == 4, 'EXTENSIONS: 4 columns expected')
    T['ext'] = [(one, 0, f[0])] + [(one, 1, c) for c in f[1:]]

    # ---- TRIGGERS
    sec = section_if(fn, 'len(self.trigger_library.data) != 0')
    f = split_format(str_const(fmt_assign(sec)))
    call = the_format_call(sec)
    ok = (len(call.args) == 2 and unparse(call.args[0]) == 'k' and isinstance(call.args[1], ast.Starred))
    expect(ok, 'TRIGGERS: arguments changed')
    inner = call.args[1].value
    ok = (isinstance(inner, ast.Call) and unparse(inner.func) == 'np.round' and isinstance(inner.args[0], ast.BinOp)
          and isinstance(inner.args[0].op, ast.Mult) and unparse(inner.args[0].left) == 'self.trigger_library.data[k]')
    expect(ok, 'TRIGGERS: rounding expression changed: ' + unparse(inner))
    tm = num_list(inner.args[0].right)
    expect(len(f) == 5 and len(tm) == 4, 'TRIGGERS: 5 columns / 4 multipliers expected')
    T['trig'] = [(one, 0, f[0])] + [(m, 1, c) for m, c in zip(tm, f[1:])]

    # ---- LABELSET / LABELINC
    for nm, test, lib in (('lset', 'len(self.label_set_library.data) != 0', 'label_set_library'),
                          ('linc', 'len(self.label_inc_library.data) != 0', 'label_inc_library')):
        sec = section_if(fn, test)
        f = split_format(str_const(fmt_assign(sec)))
        call = the_format_call(sec)
        expect(unparse(call) == 'id_format_str.format(k, value, label_id)', nm + ': arguments changed')
        vals = {unparse(n.targets[0]): unparse(n.value) for n in ast.walk(sec) if isinstance(n, ast.Assign) and len(n.targets) == 1}
        expect(vals.get('value') == 'self.%s.data[k][0]' % lib, nm + ': value expression changed')
        expect(vals.get('label_id') in ('labels[int(self.%s.data[k][1]) - 1]' % lib, 'labels[self.%s.data[k][1] - 1]' % lib),
               nm + ': label lookup changed')
        expect(f == [0, 0, -1], nm + ': format must be id, value, label string')
        T[nm] = [(one, 0, 0), (one, 0, 0), (one, 0, -1)]

    # ---- [BLOCKS]
    expect(unparse(assign_in(fn, 'block_duration')) == 'self.block_durations[block_counter] / self.block_duration_raster',
           'BLOCKS: duration expression changed')
    expect(unparse(assign_in(fn, 'block_duration_rounded')) == 'round(block_duration)', 'BLOCKS: rounding changed')
    idw = assign_in(fn, 'id_format_width')
    expect(unparse(idw) == "'{:' + str(len(str(len(self.block_events)))) + 'd}'", 'BLOCKS: id width expression changed')
    bfmt = None
    for n in ast.walk(fn):
        if isinstance(n, ast.Assign) and unparse(n.targets[0]) == 'id_format_str' and isinstance(n.value, ast.BinOp) \
                and unparse(n.value.left) == 'id_format_width':
            bfmt = str_const(n.value.right)
    expect(bfmt is not None and bfmt.startswith(' '), 'BLOCKS: format string not found')
    bf = split_format('{:1d}' + bfmt)
    expect(bf == [0] * 8, 'BLOCKS: 8 integer columns expected')
    bcall = [n for n in ast.walk(fn) if isinstance(n, ast.Call) and unparse(n.func) == 'id_format_str.format'
             and 'block_duration_rounded' in unparse(n)]
    expect(len(bcall) == 1 and unparse(bcall[0].args[0]) == '*(block_counter, block_duration_rounded, *self.block_events[block_counter][1:])',
           'BLOCKS: format arguments changed')

    # ---- [DEFINITIONS] / [SHAPES]
    src = unparse(fn)
    dfm = set(re.findall(r"f'\{values\[block_counter\](?:\[i\])?:([0-9.]*g)\} '", src))
    expect(len(dfm) == 1, 'DEFINITIONS: numeric format changed: %s' % sorted(dfm))
    def_fmt = fmt_code(dfm.pop())
    expect('keys = sorted(self.definitions.keys())' in src, 'DEFINITIONS: keys are not sorted')
    sec = section_if(fn, 'len(self.shape_library.data) != 0')
    ssrc = unparse(sec)
    expect("s = 'shape_id {:.0f}\\n'.format(k)" in ssrc and "s = 'num_samples {:.0f}\\n'.format(shape_data[0])" in ssrc,
           'SHAPES: header formats changed')
    m = re.search(r"s = \('\{:([0-9.]*g)\}\\n' \* len\(shape_data\[1:\]\)\)\.format\(\*shape_data\[1:\]\)", ssrc)
    expect(m is not None, 'SHAPES: sample format changed')
    shape_fmt = fmt_code(m.group(1))
    # the copy: `self = self.remove_duplicates()` under `if remove_duplicates:`
    cp = section_if(fn, 'remove_duplicates')
    expect([unparse(s) for s in cp.body] == ['self = self.remove_duplicates()'], 'write(): does not work on the deduplicated copy')
    return T, def_fmt, shape_fmt


def assign_in(fn, name):
    found = [n.value for n in ast.walk(fn) if isinstance(n, ast.Assign) and len(n.targets) == 1
             and isinstance(n.targets[0], ast.Name) and n.targets[0].id == name]
    if len(found) != 1:
        raise TranslateError('expected exactly one assignment to %s, found %d' % (name, len(found)))
    return found[0]


# ---- reader -------------------------------------------------------------------------------------
def read_tables():
    tree, _ = parse(R)
    fn = func(tree, 'read')
    S = {}
    extra = {}

    def branch(test_src):
        for n in ast.walk(fn):
            if isinstance(n, ast.If) and unparse(n.test) == test_src:
                return n
        raise TranslateError('reader: branch `%s` not found' % test_src)

    def read_calls(nodes):
        out = []
        for st in nodes:
            for n in ast.walk(st):
                if isinstance(n, ast.Call) and unparse(n.func) == '__read_events':
                    out.append(n)
        return out

    def scale_of(call):
        if len(call.args) >= 2:
            return [const_num(e) for e in call.args[1].elts]
        for kw in call.keywords:
            if kw.arg == 'scale':
                return [const_num(e) for e in kw.value.elts]
        return None

    def v14(sec_test):
        """the __read_events call of the 1.4 branch (and not JEMRIS) of a section"""
        b = branch(sec_test)
        body = b.body
        # not jemris
        if len(body) == 1 and isinstance(body[0], ast.If) and unparse(body[0].test) == 'jemris_generated':
            body = body[0].orelse
        if len(body) == 1 and isinstance(body[0], ast.If) and unparse(body[0].test) == 'version_combined >= 1004000':
            body = body[0].body
        calls = read_calls(body)
        if len(calls) != 1:
            raise TranslateError('reader %s: expected one __read_events call in the 1.4 branch, found %d' % (sec_test, len(calls)))
        return calls[0]

    c = v14("section == '[RF]'")
    S['rf'] = scale_of(c)
    c = v14("section == '[GRADIENTS]'")
    S['grad'] = scale_of(c)
    expect(len(c.args) >= 3 and str_const(c.args[2]) == 'g', "reader: [GRADIENTS] type tag is not 'g'")
    c = v14("section == '[TRAP]'")
    S['trap'] = scale_of(c)
    expect(len(c.args) >= 3 and str_const(c.args[2]) == 't', "reader: [TRAP] type tag is not 't'")
    c = v14("section == '[ADC]'")
    S['adc'] = scale_of(c)
    app = [unparse(kw.value) for kw in c.keywords if kw.arg == 'append']
    expect(app == ['self.system.adc_dead_time'], 'reader: ADC append argument changed: %s' % app)
    c = v14("section == '[EXTENSIONS]'")
    S['ext'] = scale_of(c) or None
    c = v14("section[:18] == 'extension TRIGGERS'")
    S['trig'] = scale_of(c)
    for nm, key in (('lset', 'LABELSET'), ('linc', 'LABELINC')):
        b = branch("section[:18] == 'extension %s'" % key)
        src = unparse(b)
        expect('__read_and_parse_events(input_file, l1, l2)' in src and 'return int(s)' in src
               and 'return get_supported_labels().index(s) + 1' in src, 'reader: %s parsers changed' % key)
    # __read_events: data[1:] * scale, id = data[0]
    fe = func(tree, '__read_events')
    src = unparse(fe)
    for frag in ('event_id = data[0]', 'data = tuple(data[1:] * scale)', 'data = (*data, append)',
                 "data = np.fromstring(line, dtype=float, sep=' ')"):
        expect(frag in src, '__read_events: expected `%s`' % frag)
    defscale = fe.args.defaults[0] if fe.args.defaults else None
    expect(defscale is not None and [const_num(e) for e in defscale.elts] == [1], '__read_events: default scale is not (1,)')
    # blocks
    fb = func(tree, '__read_blocks')
    src = unparse(fb)
    expect('block_durations[delay_id] = block_events[1] * block_duration_raster' in src, 'reader: block duration product changed')
    expect('event_table[block_events[0]] = np.array([0, *block_events[2:]])' in src, 'reader: block event table changed')
    # definitions -> attributes
    dm = {}
    b = branch("section == '[DEFINITIONS]'")
    for n in ast.walk(b):
        if isinstance(n, ast.If) and isinstance(n.test, ast.Compare) and len(n.test.ops) == 1 \
                and isinstance(n.test.ops[0], ast.In) and unparse(n.test.comparators[0]) == 'self.definitions':
            key = str_const(n.test.left)
            for st in n.body:
                if isinstance(st, ast.Assign) and unparse(st.value) == "self.definitions['%s']" % key:
                    dm[key] = unparse(st.targets[0])
    extra['defs'] = dm
    # shapes
    fs = func(tree, '__read_shapes')
    src = unparse(fs)
    for frag in ('shape_id = int(tok[1])', 'num_samples = int(tok[1])', 'data.append(float(line))', 'data.insert(0, num_samples)'):
        expect(frag in src, '__read_shapes: expected `%s`' % frag)
    return S, extra


WANT_ATTR = {
    'GradientRasterTime': 'self.grad_raster_time',
    'RadiofrequencyRasterTime': 'self.rf_raster_time',
    'AdcRasterTime': 'self.adc_raster_time',
    'BlockDurationRaster': 'self.block_duration_raster',
}
COQ_ATTR = {
    'GradientRasterTime': 'def_sets_grad_raster',
    'RadiofrequencyRasterTime': 'def_sets_rf_raster',
    'AdcRasterTime': 'def_sets_adc_raster',
    'BlockDurationRaster': 'def_sets_block_raster',
}


def codes(s):
    return '[' + '; '.join('%d' % b for b in s.encode('utf-8')) + ']%Z'


ALLOWED_FORMATTED = {
    'self.version_major', 'self.version_minor', 'self.version_revision',       # [VERSION]
    'keys[block_counter]', 'values[block_counter]', 'values[block_counter][i]',  # [DEFINITIONS]
    "self.get_extension_type_ID('TRIGGERS')", 'tid',                           # extension headers
    'md5',                                                                       # [SIGNATURE]
}


def check_written_expressions():
    """every output_file.write(...) of write(): a string literal, an f-string over the modelled values only, a text
    definition + ' ', or a row `s` produced by str.format of a literal format over library data.  Anything else (a
    date, a path, a host name, an environment value ...) makes the file depend on something the model does not know:
    fail closed."""
    tree, _ = parse(W)
    fn = func(tree, 'write')
    writes = [n for n in ast.walk(fn) if isinstance(n, ast.Call) and unparse(n.func) == 'output_file.write']
    expect(len(writes) >= 40, 'write(): output_file.write calls not found')
    for n in writes:
        expect(len(n.args) == 1 and not n.keywords, 'write(): unexpected call shape %s' % unparse(n))
        a = n.args[0]
        if isinstance(a, ast.Constant) and isinstance(a.value, str):
            continue
        if isinstance(a, ast.JoinedStr):
            for v in a.values:
                if isinstance(v, ast.FormattedValue):
                    src = unparse(v.value)
                    expect(src in ALLOWED_FORMATTED, 'write(): the file contains a value the model does not know: {%s} in %s'
                           % (src, unparse(a)))
            continue
        if unparse(a) in ("values[block_counter] + ' '", 's'):
            continue
        raise TranslateError('write(): unexpected text written to the file: %s' % unparse(a))
    # rows: `s` is only ever the result of str.format on a literal format (or id_format_str)
    for n in ast.walk(fn):
        if isinstance(n, ast.Assign) and len(n.targets) == 1 and unparse(n.targets[0]) == 's':
            v = n.value
            ok = isinstance(v, ast.Call) and isinstance(v.func, ast.Attribute) and v.func.attr == 'format'
            expect(ok, 'write(): row text is not produced by str.format: %s' % unparse(n))
            base = v.func.value
            expect(unparse(base) == 'id_format_str' or (isinstance(base, ast.Constant) and isinstance(base.value, str))
                   or unparse(base) == "'{:.9g}\\n' * len(shape_data[1:])", 'write(): unexpected row format source: %s' % unparse(base))
    # the first two writes are the fixed header
    first = [unparse(n.args[0]) for n in sorted(writes, key=lambda c: (c.lineno, c.col_offset))[:3]]
    expect(first == ["'# Pulseq sequence file\\n'", "'# Created by PyPulseq\\n\\n'", "'[VERSION]\\n'"], 'write(): header lines changed: %s' % first)
    tids = [unparse(n.value) for n in ast.walk(fn) if isinstance(n, ast.Assign) and unparse(n.targets[0]) == 'tid']
    expect(sorted(tids) == ["self.get_extension_type_ID('LABELINC')", "self.get_extension_type_ID('LABELSET')"], 'write(): tid source changed')
    # nothing but the file itself is opened, nothing ambient is imported into the module
    mods = set()
    for n in tree.body:
        if isinstance(n, ast.Import):
            mods |= {a.name.split('.')[0] for a in n.names}
        elif isinstance(n, ast.ImportFrom):
            mods.add((n.module or '').split('.')[0])
    extra = mods - {'hashlib', 'pathlib', 'typing', 'numpy', 'pypulseq'}
    expect(not extra, 'write_seq.py imports modules the model does not know: %s' % sorted(extra))


def sec_file():
    check_written_expressions()
    T, def_fmt, shape_fmt = write_tables()
    S, extra = read_tables()
    out = HEADER % 'Sequence/write_seq.py (format strings, multipliers), Sequence/read_seq.py (1.4 scale tuples, definitions)'
    out += '(* column = (write multiplier, pre-rounding, format, read scale);\n'
    out += '   pre 0 none | 1 round(v*mult) | 2 round(v/rf_raster)*rf_raster*mult;  format 0 integer | n>0 n significant digits | -1 label string *)\n'
    order = ['rf', 'grad', 'trap', 'adc', 'ext', 'trig', 'lset', 'linc']
    table = {}
    for nm in order:
        cols = T[nm]
        sc = S.get(nm)
        if nm in ('lset', 'linc'):
            sc = [Fraction(1)] * (len(cols) - 1)
        if sc is None:
            sc = [Fraction(1)] * (len(cols) - 1)      # __read_events default scale (1,) broadcasts
        if len(sc) != len(cols) - 1:
            raise TranslateError('section %s: writer has %d value columns, reader scale tuple has %d' % (nm, len(cols) - 1, len(sc)))
        full = [Fraction(1)] + list(sc)              # id column: event_id = data[0]
        table[nm] = [(m, p, f, s) for (m, p, f), s in zip(cols, full)]
        out += 'Definition sec_%s : list (Q * Z * Z * Q) :=\n  [%s].\n' % (
            nm, ';\n   '.join('(%s, %s, %s, %s)' % (coq_Q(m), coq_Z(p), coq_Z(f), coq_Q(s)) for m, p, f, s in table[nm]))
    out += 'Definition all_sections : list (list (Q * Z * Z * Q)) := [%s].\n' % '; '.join('sec_' + n for n in order)
    out += 'Definition def_fmt : Z := %s.\n' % coq_Z(def_fmt)
    out += 'Definition shape_sample_fmt : Z := %s.\n' % coq_Z(shape_fmt)
    for key, coqname in COQ_ATTR.items():
        got = extra['defs'].get(key)
        out += 'Definition %s : bool := %s.   (* %s -> %s *)\n' % (
            coqname, 'true' if got == WANT_ATTR[key] else 'false', key, got or 'not assigned')
        out += 'Definition key_%s : list Z := %s.\n' % (coqname[9:], codes(key))
    CONSTS['file_table'] = table
    CONSTS['file_def_attr'] = extra['defs']
    return out


SECTIONS = {'GenFile': sec_file}


def _fn_nodes(rel, name):
    tree, _ = parse(rel)
    return strip_doc(func(tree, name))


FP_SOURCES = {
    'write_seq.write': lambda: _fn_nodes(W, 'write'),
    'read_seq.read': lambda: _fn_nodes(R, 'read'),
    'read_seq.__read_events': lambda: _fn_nodes(R, '__read_events'),
    'read_seq.__read_blocks': lambda: _fn_nodes(R, '__read_blocks'),
    'read_seq.__read_shapes': lambda: _fn_nodes(R, '__read_shapes'),
    'read_seq.__read_definitions': lambda: _fn_nodes(R, '__read_definitions'),
    'read_seq.__read_and_parse_events': lambda: _fn_nodes(R, '__read_and_parse_events'),
}
FP_GROUPS = {'FP_file_io': list(FP_SOURCES)}
