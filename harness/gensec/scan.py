"""gensec/scan.py — translator plug-in for the first/last reconstruction scan of read_seq.py (the loop over
`self.block_events` that fills in `grad.first` / `grad.last`, ~lines 256-330).

Checks the shape of every statement the hand-written model coq/Model/Scan.v transcribes (fail closed on anything
unexpected) and emits coq/Gen/GenScan.v with the two facts that vary between the versions of the scan seen so far:
  scan_sets_prev_on_done : the branch for an event whose first/last are already set does `grad_prev_last[j] = grad.last`
  scan_fix_shared        : the branch for an event that sits on an earlier channel of the same block copies that
                           channel's running value (repair 8ae658b)
and the extrapolation coefficients of `grad.last` for raster-sampled gradients.
"""
import ast
from fractions import Fraction

from translate import parse, func, const_num, coq_Q, unparse, HEADER, TranslateError, CONSTS, fp

R = 'Sequence/read_seq.py'


def scan_loop():
    tree, _ = parse(R)
    fn = func(tree, 'read')
    loops = [n for n in fn.body if isinstance(n, ast.For) and unparse(n.iter) == 'self.block_events'
             and 'grad_prev_last' in unparse(n)]
    if len(loops) != 1:
        raise TranslateError('first/last scan: expected one loop over self.block_events using grad_prev_last, found %d' % len(loops))
    init = [unparse(n) for n in fn.body if isinstance(n, ast.Assign) and unparse(n.targets[0]) in ('grad_channels', 'grad_prev_last')]
    if init != ["grad_channels = ['gx', 'gy', 'gz']", 'grad_prev_last = np.zeros(len(grad_channels))']:
        raise TranslateError('first/last scan: initialisation changed: %s' % init)
    return loops[0]


def expect(cond, msg):
    if not cond:
        raise TranslateError('first/last scan: ' + msg)


def body_src(stmts):
    return [unparse(s) for s in stmts]


def sec_scan():
    loop = scan_loop()
    b = loop.body
    expect(body_src(b[:3]) == ['block = self.get_block(block_counter)', 'block_duration = block.block_duration',
                               'event_idx = self.block_events[block_counter]'], 'loop prologue changed: %s' % body_src(b[:3]))
    expect(len(b) == 4 and isinstance(b[3], ast.For) and unparse(b[3].iter) == 'range(len(grad_channels))'
           and unparse(b[3].target) == 'j', 'channel loop changed')
    ch = b[3].body
    expect(unparse(ch[0]) == 'grad = getattr(block, grad_channels[j])', 'grad lookup changed')
    expect(isinstance(ch[1], ast.If) and unparse(ch[1].test) == 'grad is None'
           and body_src(ch[1].body) == ['grad_prev_last[j] = 0', 'continue'] and not ch[1].orelse, '`grad is None` branch changed')
    expect(len(ch) == 3 and isinstance(ch[2], ast.If) and unparse(ch[2].test) == "grad.type == 'grad'", 'type test changed')
    expect(body_src(ch[2].orelse) == ['grad_prev_last[j] = 0'], 'trapezoid branch changed: %s' % body_src(ch[2].orelse))
    g = ch[2].body
    i = 0
    expect(isinstance(g[i], ast.If) and unparse(g[i].test) == 'grad.delay > 0' and body_src(g[i].body) == ['grad_prev_last[j] = 0']
           and not g[i].orelse, 'delay reset changed')
    i += 1
    expect(isinstance(g[i], ast.If) and unparse(g[i].test) == "hasattr(grad, 'first') and hasattr(grad, 'last')" and not g[i].orelse,
           'already-set test changed')
    done = body_src(g[i].body)
    if done == ['grad_prev_last[j] = grad.last', 'continue']:
        sets_on_done = True
    elif done == ['continue']:
        sets_on_done = False
    else:
        raise TranslateError('first/last scan: already-set branch changed: %s' % done)
    i += 1
    expect(unparse(g[i]) == 'amplitude_ID = event_idx[j + 2]', 'amplitude_ID changed')
    i += 1
    expect(isinstance(g[i], ast.If) and unparse(g[i].test) == 'amplitude_ID in event_idx[2:j + 2]' and not g[i].orelse,
           'shared-event test changed: %s' % unparse(g[i].test))
    sh = g[i].body
    expect(isinstance(sh[0], ast.If) and unparse(sh[0].test) == 'self.use_block_cache'
           and body_src(sh[0].body) == ['grad.first = self.grad_library.data[amplitude_ID][4]',
                                        'grad.last = self.grad_library.data[amplitude_ID][5]'], 'shared-event cache fill changed')
    rest = body_src(sh[1:])
    if rest == ['grad_prev_last[j] = grad_prev_last[list(event_idx[2:j + 2]).index(amplitude_ID)]', 'continue']:
        fix_shared = True
    elif rest == ['continue']:
        fix_shared = False
    else:
        raise TranslateError('first/last scan: shared-event branch changed: %s' % rest)
    i += 1
    expect(body_src(g[i:i + 2]) == ['time_id = self.grad_library.data[amplitude_ID][2]', 'grad.first = grad_prev_last[j]'],
           'first assignment changed: %s' % body_src(g[i:i + 2]))
    i += 2
    t = g[i]
    expect(isinstance(t, ast.If) and unparse(t.test) == 'time_id != 0'
           and body_src(t.body) == ['grad.last = grad.waveform[-1]', 'grad_duration = grad.delay + grad.tt[-1]'],
           'extended-trapezoid branch changed')
    eb = t.orelse
    expect(len(eb) == 2 and unparse(eb[1]) == 'grad_duration = grad.delay + len(grad.waveform) * self.grad_raster_time',
           'arbitrary-gradient duration changed')
    v = eb[0]
    ok = (isinstance(v, ast.Assign) and unparse(v.targets[0]) == 'grad.last' and isinstance(v.value, ast.BinOp)
          and isinstance(v.value.op, ast.Mult) and isinstance(v.value.left, ast.BinOp) and isinstance(v.value.left.op, ast.Sub)
          and unparse(v.value.left.right) == 'grad.waveform[-2]' and isinstance(v.value.left.left, ast.BinOp)
          and isinstance(v.value.left.left.op, ast.Mult) and unparse(v.value.left.left.right) == 'grad.waveform[-1]')
    expect(ok, 'extrapolation of grad.last changed: %s' % unparse(v))
    c = const_num(v.value.right)
    a = const_num(v.value.left.left.left) * c
    bcoef = -c
    i += 1
    expect(unparse(g[i]) == 'eps = np.finfo(np.float64).eps', 'eps changed')
    i += 1
    e = g[i]
    expect(isinstance(e, ast.If) and unparse(e.test) == 'grad_duration + eps < block_duration'
           and body_src(e.body) == ['grad_prev_last[j] = 0'] and body_src(e.orelse) == ['grad_prev_last[j] = grad.last'],
           'end-of-block test changed')
    i += 1
    tail = body_src(g[i:])
    expect(len(tail) == 4 and tail[0] == 'amplitude = self.grad_library.data[amplitude_ID][0]'
           and tail[1] == 'shape_id = self.grad_library.data[amplitude_ID][1]'
           and tail[2] == 'new_data = (amplitude, shape_id, time_id, grad.delay, grad.first, grad.last)'
           and tail[3] == "self.grad_library.update_data(amplitude_ID, None, new_data, 'g')", 'library update changed: %s' % tail)
    CONSTS['scan_sets_prev_on_done'] = sets_on_done
    CONSTS['scan_fix_shared'] = fix_shared
    out = HEADER % 'Sequence/read_seq.py (first/last reconstruction scan)'
    out += 'Definition scan_sets_prev_on_done : bool := %s.\n' % ('true' if sets_on_done else 'false')
    out += 'Definition scan_fix_shared : bool := %s.\n' % ('true' if fix_shared else 'false')
    out += '(* grad.last of a raster-sampled gradient = a * waveform[-1] + b * waveform[-2] *)\n'
    out += 'Definition scan_extrap_a : Q := %s.\nDefinition scan_extrap_b : Q := %s.\n' % (coq_Q(a), coq_Q(bcoef))
    out += 'Definition scan_eps : Q := %s.   (* np.finfo(np.float64).eps = 2^-52 *)\n' % coq_Q(Fraction(1, 2 ** 52))
    return out


SECTIONS = {'GenScan': sec_scan}
FP_SOURCES = {'read_seq.read.first_last_scan': lambda: [scan_loop()]}
FP_GROUPS = {'FP_first_last_scan': ['read_seq.read.first_last_scan']}
