"""gensec/labels.py — translator plug-in for C19 (labels, triggers, extension sections).

Reads with `ast` only (nothing from the repository is imported or executed):
  supported_labels_rf_use.py      the label tuple and the RF-use tuple
  make_label.py                   accepted type strings, the `int(value)` coercion
  make_trigger.py / make_digital_output_pulse.py   accepted channels
  Sequence/block.py               trigger type/channel encode lists (register_control_event) and decode lists
                                  (get_block), label id offsets (+1 / -1), extension type names
  Sequence/write_seq.py           extension header lines, TRIGGERS column multipliers, row formats
  Sequence/read_seq.py            header prefixes and slice lengths, TRIGGERS column scales, label parsers
and emits coq/Gen/GenLabels.v.  Fails closed (TranslateError) when a pattern is not found."""
import ast

from translate import (parse, func, method, const_num, const_int, coq_Q, coq_Z, unparse, strip_doc,
                       HEADER, TranslateError, CONSTS)


def coq_str(s):
    if any(ord(ch) < 32 or ord(ch) > 126 or ch == '"' for ch in s):
        raise TranslateError('unsupported character in string literal %r' % s)
    return '"%s"%%string' % s


def coq_strlist(xs):
    return '[' + '; '.join(coq_str(x) for x in xs) + ']'


def returned_tuple(fn):
    rets = [n for n in ast.walk(fn) if isinstance(n, ast.Return)]
    if len(rets) != 1 or not isinstance(rets[0].value, ast.Tuple):
        raise TranslateError('%s: a single `return (<strings>)` expected' % fn.name)
    vals = []
    for e in rets[0].value.elts:
        if not (isinstance(e, ast.Constant) and isinstance(e.value, str)):
            raise TranslateError('%s: non-string element in the returned tuple' % fn.name)
        vals.append(e.value)
    return vals


def strlists(fn):
    out = []
    for n in ast.walk(fn):
        if isinstance(n, (ast.List, ast.Tuple)) and n.elts and \
                all(isinstance(e, ast.Constant) and isinstance(e.value, str) for e in n.elts):
            out.append((n.lineno, n.col_offset, [e.value for e in n.elts]))
    return [x[2] for x in sorted(out)]


def expect_in(lists, want, where):
    if want not in lists:
        raise TranslateError('%s: list %s not found (found %s)' % (where, want, lists))


def index_offsets(fn, what):
    """all `<...>.index(<what>) + K` in fn -> [K]"""
    res = []
    for n in ast.walk(fn):
        if isinstance(n, ast.BinOp) and isinstance(n.op, ast.Add) and isinstance(n.left, ast.Call) \
                and isinstance(n.left.func, ast.Attribute) and n.left.func.attr == 'index' \
                and unparse(n.left.args[0]) == what:
            res.append(const_int(n.right))
    return res


def plain_function(tree, name, rel, cls=None):
    """the modelled function must be a plain `def`: no decorator (caching / wrapping changes what a call returns
    without changing the body the fingerprints hash), defined once, and its name not re-bound at the same level"""
    scope = tree.body
    if cls is not None:
        cs = [n for n in tree.body if isinstance(n, ast.ClassDef) and n.name == cls]
        if len(cs) != 1:
            raise TranslateError('%s: class %s not found' % (rel, cls))
        scope = cs[0].body
    defs = [n for n in scope if isinstance(n, (ast.FunctionDef, ast.AsyncFunctionDef)) and n.name == name]
    if len(defs) != 1 or not isinstance(defs[0], ast.FunctionDef):
        raise TranslateError('%s: exactly one plain `def %s` expected, found %d' % (rel, name, len(defs)))
    if defs[0].decorator_list:
        raise TranslateError('%s: %s is decorated with %s — the model describes the undecorated function'
                             % (rel, name, ', '.join('@' + unparse(d) for d in defs[0].decorator_list)))
    for n in scope:
        tgts = []
        if isinstance(n, ast.Assign):
            tgts = n.targets
        elif isinstance(n, (ast.AugAssign, ast.AnnAssign)):
            tgts = [n.target]
        for t in tgts:
            for sub in ast.walk(t):
                if isinstance(sub, ast.Name) and sub.id == name:
                    raise TranslateError('%s: the name %s is re-bound by an assignment (line %d)' % (rel, name, n.lineno))
    if cls is not None:
        if cs[0].decorator_list:
            raise TranslateError('%s: class %s is decorated' % (rel, cls))


PLAIN = [
    ('supported_labels_rf_use.py', None, ['get_supported_labels', 'get_supported_rf_uses']),
    ('make_label.py', None, ['make_label']),
    ('make_trigger.py', None, ['make_trigger']),
    ('make_digital_output_pulse.py', None, ['make_digital_output_pulse']),
    ('make_delay.py', None, ['make_delay']),
    ('Sequence/block.py', None, ['set_block', 'get_block', 'register_control_event', 'register_label_event']),
    ('Sequence/write_seq.py', None, ['write']),
    ('Sequence/read_seq.py', None, ['read']),
    ('Sequence/sequence.py', 'Sequence', ['evaluate_labels', 'get_extension_type_ID', 'get_extension_type_string',
                                          'set_extension_string_ID', 'register_label_event', 'add_block', 'set_block',
                                          'get_block', 'read', 'write']),
    ('event_lib.py', 'EventLibrary', ['find', 'find_or_insert', 'insert']),
]


def check_plain():
    for rel, cls, names in PLAIN:
        t, _ = parse(rel)
        for nm in names:
            plain_function(t, nm, rel, cls)


def sec_labels():
    check_plain()
    out = HEADER % ('supported_labels_rf_use.py, make_label.py, make_trigger.py, make_digital_output_pulse.py, '
                    'Sequence/block.py, Sequence/write_seq.py, Sequence/read_seq.py')
    out += 'Open Scope Z_scope.\n'
    # ---- label / rf-use tuples
    t, _ = parse('supported_labels_rf_use.py')
    labels = returned_tuple(func(t, 'get_supported_labels'))
    uses = returned_tuple(func(t, 'get_supported_rf_uses'))
    CONSTS['supported_labels'] = labels
    out += 'Definition supported_labels : list string := %s.\n' % coq_strlist(labels)
    out += 'Definition supported_rf_uses : list string := %s.\n' % coq_strlist(uses)
    # ---- make_label: type strings, integer coercion, one kind of label only (no flag/counter split)
    t, _ = parse('make_label.py')
    ml = func(t, 'make_label')
    sl = strlists(ml)
    expect_in(sl, ['SET', 'INC'], 'make_label')
    src = unparse(ml)
    for frag in ("out.type = 'labelset'", "out.type = 'labelinc'", 'out.value = int(value)',
                 'label not in arr_supported_labels', 'arr_supported_labels = get_supported_labels()',
                 'isinstance(value, (bool, float, int))'):
        if frag not in src:
            raise TranslateError('make_label: expected `%s`' % frag)
    out += 'Definition label_type_strings : list string := %s.\n' % coq_strlist(['SET', 'INC'])
    out += '(* make_label coerces every value (bool, float, int) with int(): flags and counters are not distinguished *)\n'
    out += 'Definition label_value_is_int_coerced : bool := true.\n'
    # ---- channels accepted by the makers
    t, _ = parse('make_trigger.py')
    mt = strlists(func(t, 'make_trigger'))
    t, _ = parse('make_digital_output_pulse.py')
    mo = strlists(func(t, 'make_digital_output_pulse'))
    if len(mt) != 1 or len(mo) != 1:
        raise TranslateError('trigger makers: exactly one channel list each expected, found %s / %s' % (mt, mo))
    out += 'Definition maker_trigger_channels : list string := %s.\n' % coq_strlist(mt[0])
    out += 'Definition maker_output_channels : list string := %s.\n' % coq_strlist(mo[0])
    # ---- block.py: encode (register_control_event) and decode (get_block) lists
    tb, _ = parse('Sequence/block.py')
    rc = func(tb, 'register_control_event')
    enc = strlists(rc)
    if len(enc) != 3:
        raise TranslateError('register_control_event: three string lists expected, found %s' % enc)
    src = unparse(rc)
    for frag in ('event_type = %r.index(event.type)' % enc[0], 'if event_type == 0:', 'elif event_type == 1:',
                 'event_channel = %r.index(event.channel)' % enc[1], 'event_channel = %r.index(event.channel)' % enc[2],
                 'data = (event_type + 1, event_channel + 1, event.delay, event.duration)'):
        if frag not in src:
            raise TranslateError('register_control_event: expected `%s`' % frag)
    gb = func(tb, 'get_block')
    gsrc = unparse(gb)
    dec_types = dec_c1 = dec_c2 = None
    for n in ast.walk(gb):
        if isinstance(n, ast.If) and unparse(n.test) == "ext_type == 'TRIGGERS'":
            body = unparse(n)
            ls = []
            for st in ast.walk(n):
                if isinstance(st, ast.Assign) and unparse(st.targets[0]) in ('trigger_types', 'trigger_channels'):
                    ls.append((st.lineno, unparse(st.targets[0]), [e.value for e in st.value.elts]))
            ls.sort()
            if [x[1] for x in ls] != ['trigger_types', 'trigger_channels', 'trigger_channels']:
                raise TranslateError('get_block: trigger decode lists changed: %s' % ls)
            dec_types, dec_c1, dec_c2 = ls[0][2], ls[1][2], ls[2][2]
            for frag in ('trigger.type = trigger_types[int(data[0]) - 1]', 'if data[0] == 1:', 'elif data[0] == 2:',
                         'trigger.channel = trigger_channels[int(data[1]) - 1]', 'trigger.delay = data[2]',
                         'trigger.duration = data[3]', 'data = self.trigger_library.data[ext_data[1]]'):
                if frag not in body:
                    raise TranslateError('get_block: expected `%s` in the TRIGGERS branch' % frag)
            break
    if dec_types is None:
        raise TranslateError("get_block: branch `ext_type == 'TRIGGERS'` not found")
    for frag in ("elif ext_type in ['LABELSET', 'LABELINC']:", "if ext_type == 'LABELSET':",
                 'data = self.label_set_library.data[ext_data[1]]', 'data = self.label_inc_library.data[ext_data[1]]',
                 'label.label = supported_labels[int(data[1] - 1)]', 'label.value = data[0]',
                 'label.type = ext_type.lower()', 'next_ext_id = ext_data[2]', 'while next_ext_id != 0:',
                 'block.label = dict(enumerate(reversed(block.label.values())))'):
        if frag not in gsrc:
            raise TranslateError('get_block: expected `%s`' % frag)
    out += 'Definition ctl_types_enc : list string := %s.\n' % coq_strlist(enc[0])
    out += 'Definition ctl_output_channels_enc : list string := %s.\n' % coq_strlist(enc[1])
    out += 'Definition ctl_trigger_channels_enc : list string := %s.\n' % coq_strlist(enc[2])
    out += 'Definition ctl_types_dec : list string := %s.\n' % coq_strlist(dec_types)
    out += 'Definition ctl_output_channels_dec : list string := %s.\n' % coq_strlist(dec_c1)
    out += 'Definition ctl_trigger_channels_dec : list string := %s.\n' % coq_strlist(dec_c2)
    # ---- label ids: +1 when registered / read, -1 when decoded / written
    rl = func(tb, 'register_label_event')
    off_reg = index_offsets(rl, 'event.label')
    if len(off_reg) != 1 or 'data = (event.value, label_id)' not in unparse(rl):
        raise TranslateError('register_label_event: `index(event.label) + K`, `data = (event.value, label_id)` expected')
    tw, _ = parse('Sequence/write_seq.py')
    w = func(tw, 'write')
    wsrc = unparse(w)
    for frag in ('label_id = labels[int(self.label_set_library.data[k][1]) - 1]',
                 'label_id = labels[self.label_inc_library.data[k][1] - 1]',
                 'value = self.label_set_library.data[k][0]', 'value = self.label_inc_library.data[k][0]',
                 's = id_format_str.format(k, value, label_id)'):
        if frag not in wsrc:
            raise TranslateError('write: expected `%s`' % frag)
    tr, _ = parse('Sequence/read_seq.py')
    r = func(tr, 'read')
    rsrc = unparse(r)
    off_read = index_offsets(r, 's')
    if len(off_read) != 2 or 'get_supported_labels().index(s)' not in rsrc or rsrc.count('return int(s)') != 2:
        raise TranslateError('read: label parsers `int(s)` / `get_supported_labels().index(s) + K` changed')
    out += 'Definition label_id_offset_register : Z := %s.\n' % coq_Z(off_reg[0])
    out += 'Definition label_id_offset_read : list Z := [%s].\n' % '; '.join(coq_Z(x) for x in off_read)
    out += 'Definition label_id_offset_decode : Z := %s.\n' % coq_Z(1)     # the three `- 1` fragments checked above
    # ---- extension type names at every use site
    sb = func(tb, 'set_block')
    names_set = []
    for n in ast.walk(sb):
        if isinstance(n, ast.Call) and isinstance(n.func, ast.Attribute) and n.func.attr == 'get_extension_type_ID':
            a = n.args[0]
            if isinstance(a, ast.Constant):
                names_set.append(a.value)
            elif unparse(a) == 'event.type.upper()':
                expect_in(strlists(sb), ['labelset', 'labelinc'], 'set_block')
                names_set += ['LABELSET', 'LABELINC']
            else:
                raise TranslateError('set_block: unexpected extension type expression %s' % unparse(a))
    names_get = ['TRIGGERS', 'LABELSET', 'LABELINC']       # the comparisons checked above
    heads_w, ids_w = [], []
    for n in ast.walk(w):
        if isinstance(n, ast.JoinedStr) and unparse(n).startswith("f'extension "):
            heads_w.append((n.lineno, n.values[0].value))
        if isinstance(n, ast.Call) and isinstance(n.func, ast.Attribute) and n.func.attr == 'get_extension_type_ID':
            ids_w.append((n.lineno, n.args[0].value))
    heads_w = [h for _, h in sorted(heads_w)]
    ids_w = [i for _, i in sorted(ids_w)]      # each id expression precedes (or sits in) its header line
    heads_r, names_r, cuts = [], [], []
    for n in ast.walk(r):
        if isinstance(n, ast.Compare) and isinstance(n.left, ast.Subscript) and unparse(n.left.value) == 'section' \
                and isinstance(n.comparators[0], ast.Constant) and str(n.comparators[0].value).startswith('extension'):
            sl = n.left.slice
            if not (isinstance(sl, ast.Slice) and sl.lower is None):
                raise TranslateError('read: unexpected section slice')
            heads_r.append((n.comparators[0].value, const_int(sl.upper)))
        if isinstance(n, ast.Call) and unparse(n.func) == 'self.set_extension_string_ID':
            names_r.append(n.args[0].value)
        if isinstance(n, ast.Assign) and unparse(n.targets[0]) == 'extension_id':
            v = n.value
            if not (unparse(v.func) == 'int' and isinstance(v.args[0], ast.Subscript) and v.args[0].slice.upper is None):
                raise TranslateError('read: `extension_id = int(section[K:])` expected')
            cuts.append(const_int(v.args[0].slice.lower))
    if not heads_w or len(heads_w) != len(ids_w) or len(heads_r) != len(names_r) or len(heads_r) != len(cuts):
        raise TranslateError('extension headers: writer %s/%s reader %s/%s/%s' % (heads_w, ids_w, heads_r, names_r, cuts))
    out += 'Definition ext_names_set_block : list string := %s.\n' % coq_strlist(names_set)
    out += 'Definition ext_names_get_block : list string := %s.\n' % coq_strlist(names_get)
    out += '(* writer: literal head of the header line (a space and the numeric id follow), name passed to get_extension_type_ID *)\n'
    out += 'Definition ext_headers_write : list (string * string) := [%s].\n' % '; '.join(
        '(%s, %s)' % (coq_str(h), coq_str(i)) for h, i in sorted(zip(heads_w, ids_w)))
    out += '(* reader: compared prefix, its slice length, where the id is cut, name passed to set_extension_string_ID *)\n'
    out += 'Definition ext_headers_read : list (string * nat * nat * string) := [%s].\n' % '; '.join(
        '(%s, %d%%nat, %d%%nat, %s)' % (coq_str(h), k, c, coq_str(nm)) for (h, k), c, nm in sorted(zip(heads_r, cuts, names_r)))
    # ---- TRIGGERS rows: multipliers / scales, rounding, formats
    mult = None
    for n in ast.walk(w):
        if isinstance(n, ast.Call) and unparse(n.func) == 'np.round' and 'self.trigger_library.data[k]' in unparse(n):
            a = n.args[0]
            if not (isinstance(a, ast.BinOp) and isinstance(a.op, ast.Mult) and unparse(a.left) == 'self.trigger_library.data[k]'
                    and unparse(a.right.func) == 'np.array'):
                raise TranslateError('write: TRIGGERS row expression changed')
            mult = [const_num(e) for e in a.right.args[0].elts]
    scale = None
    for n in ast.walk(r):
        if isinstance(n, ast.Call) and unparse(n.func).endswith('__read_events') and 'self.trigger_library' in unparse(n):
            scale = [const_num(e) for e in n.args[1].elts]
    if mult is None or scale is None:
        raise TranslateError('TRIGGERS multipliers / scales not found')
    out += 'Definition trig_write_mult : list Q := [%s].\n' % '; '.join(coq_Q(x) for x in mult)
    out += 'Definition trig_read_scale : list Q := [%s].\n' % '; '.join(coq_Q(x) for x in scale)
    # ---- get_extension_type_ID: the number given to a name seen for the first time
    tsq, _ = parse('Sequence/sequence.py')
    gid = method(tsq, 'Sequence', 'get_extension_type_ID')
    gsrc2 = unparse(gid)
    for frag in ('if extension_string not in self.extension_string_idx:', 'if len(self.extension_numeric_idx) == 0:',
                 'self.extension_numeric_idx.append(extension_id)', 'self.extension_string_idx.append(extension_string)',
                 'num = self.extension_string_idx.index(extension_string)', 'extension_id = self.extension_numeric_idx[num]'):
        if frag not in gsrc2:
            raise TranslateError('get_extension_type_ID: expected `%s`' % frag)
    first = rule = None
    for n in ast.walk(gid):
        if isinstance(n, ast.If) and unparse(n.test) == 'len(self.extension_numeric_idx) == 0':
            if len(n.body) != 1 or len(n.orelse) != 1 or unparse(n.body[0].targets[0]) != 'extension_id' \
                    or unparse(n.orelse[0].targets[0]) != 'extension_id':
                raise TranslateError('get_extension_type_ID: id assignment changed')
            first = const_int(n.body[0].value)
            v = n.orelse[0].value
            if not (isinstance(v, ast.BinOp) and isinstance(v.op, ast.Add)):
                raise TranslateError('get_extension_type_ID: new id is not `K + ...`: %s' % unparse(v))
            k = const_int(v.left)
            r = unparse(v.right)
            if r == 'max(self.extension_numeric_idx)':
                rule = '(%s + fold_left Z.max r x)%%Z' % coq_Z(k)
            elif r == 'self.extension_numeric_idx[-1]':
                rule = '(%s + last r x)%%Z' % coq_Z(k)
            else:
                raise TranslateError('get_extension_type_ID: unsupported new-id expression %s' % unparse(v))
    if rule is None:
        raise TranslateError('get_extension_type_ID: `if len(self.extension_numeric_idx) == 0` not found')
    out += '(* sequence.py get_extension_type_ID: numeric id of a name not seen before, from the list of ids in use *)\n'
    out += 'Definition ext_new_id (l : list Z) : Z := match l with [] => %s | x :: r => %s end.\n' % (coq_Z(first), rule)
    # ---- read(): which libraries / lists are re-created before the sections are loaded
    resets = set()
    for st in _read_reset_region():
        if isinstance(st, ast.Assign) and len(st.targets) == 1 and unparse(st.targets[0]).startswith('self.'):
            nm = unparse(st.targets[0])[5:]
            v = st.value
            if isinstance(v, ast.Call) and unparse(v.func) == 'EventLibrary':
                resets.add(nm)
            elif isinstance(v, ast.List) and not v.elts:
                resets.add(nm)
    for need in ('trigger_library', 'label_set_library', 'label_inc_library', 'extension_string_idx', 'extension_numeric_idx'):
        if need not in resets:
            raise TranslateError('read(): `self.%s` is not re-created before the sections are loaded (the model of '
                                 'read_ext and the theorems about read() onto a used object assume it is)' % need)
    out += '(* read_seq.py read(): is extensions_library re-created like the other libraries? *)\n'
    out += 'Definition read_resets_ext_library : bool := %s.\n' % ('true' if 'extensions_library' in resets else 'false')
    fmts = {}
    for n in ast.walk(w):
        if isinstance(n, ast.Assign) and unparse(n.targets[0]) == 'id_format_str' and isinstance(n.value, ast.Constant):
            fmts[n.lineno] = n.value.value
    def fmt_before(marker):
        ln = None
        for n in ast.walk(w):
            if isinstance(n, ast.Constant) and n.value == marker:
                ln = n.lineno
            if isinstance(n, ast.JoinedStr) and marker in unparse(n):
                ln = n.lineno
        if ln is None:
            raise TranslateError('write: marker %r not found' % marker)
        later = sorted(k for k in fmts if k > ln)
        if not later:
            raise TranslateError('write: no format after %r' % marker)
        return fmts[later[0]]
    f_ext = fmt_before('[EXTENSIONS]\n')
    f_trg = fmt_before('extension TRIGGERS ')
    f_set = fmt_before('extension LABELSET ')
    f_inc = fmt_before('extension LABELINC ')
    for nm, f in (('EXTENSIONS', f_ext), ('TRIGGERS', f_trg), ('LABELSET', f_set), ('LABELINC', f_inc)):
        if not f.endswith('\n'):
            raise TranslateError('write: %s row format does not end with a newline' % nm)
    out += 'Definition fmt_extensions_row : string := %s.\n' % coq_str(f_ext[:-1])
    out += 'Definition fmt_triggers_row : string := %s.\n' % coq_str(f_trg[:-1])
    out += 'Definition fmt_labelset_row : string := %s.\n' % coq_str(f_set[:-1])
    out += 'Definition fmt_labelinc_row : string := %s.\n' % coq_str(f_inc[:-1])
    return out


def _method(rel, cls, name):
    t, _ = parse(rel)
    return strip_doc(method(t, cls, name))


def _func(rel, name):
    t, _ = parse(rel)
    return strip_doc(func(t, name))


def _write_ext_region():
    """the extension part of write(): the four `if len(self.<lib>.data) != 0:` statements"""
    t, _ = parse('Sequence/write_seq.py')
    w = func(t, 'write')
    want = ['extensions_library', 'trigger_library', 'label_set_library', 'label_inc_library']
    out = []
    for n in ast.walk(w):
        if isinstance(n, ast.If):
            s = unparse(n.test)
            for lib in want:
                if s == 'len(self.%s.data) != 0' % lib:
                    out.append(n)
    if len(out) != 4:
        raise TranslateError('write: extension sections not found')
    return out


def _read_ext_region():
    t, _ = parse('Sequence/read_seq.py')
    r = func(t, 'read')
    out = []
    for n in ast.walk(r):
        if isinstance(n, ast.If) and unparse(n.test) in ("section == '[EXTENSIONS]'", "section[:18] == 'extension TRIGGERS'"):
            out.append(n)
    if len(out) != 2:
        raise TranslateError('read: extension sections not found')
    return out


def _read_reset_region():
    """read(): everything before the section loop (which libraries and lists are re-created)"""
    t, _ = parse('Sequence/read_seq.py')
    r = func(t, 'read')
    body = strip_doc(r)
    out = []
    for st in body:
        if isinstance(st, ast.While):
            break
        out.append(st)
    if not out or len(out) == len(body):
        raise TranslateError('read: section loop not found')
    return out


SECTIONS = {'GenLabels': sec_labels}
FP_SOURCES = {
    'Sequence.evaluate_labels': lambda: _method('Sequence/sequence.py', 'Sequence', 'evaluate_labels'),
    'make_label': lambda: _func('make_label.py', 'make_label'),
    'make_trigger': lambda: _func('make_trigger.py', 'make_trigger'),
    'make_digital_output_pulse': lambda: _func('make_digital_output_pulse.py', 'make_digital_output_pulse'),
    'write.extensions': _write_ext_region,
    'read.extensions': _read_ext_region,
    'read.reset': _read_reset_region,
}
FP_GROUPS = {'FP_labels': ['Sequence.evaluate_labels', 'make_label', 'make_trigger', 'make_digital_output_pulse',
                           'write.extensions', 'read.extensions', 'read.reset']}
