"""gensec/export.py — translator plug-in for C08 / C09 (Model/Export.v, Model/KSpace.v).

Reads from /repo/src (ast only, nothing imported or executed from the repository):
  * pypulseq/__init__.py            the defining expression of `eps` (must be the known formula -> 1e-9)
  * Sequence/sequence.py::waveforms the form of the duplicate-drop test, of the monotonicity test, of the
                                    trapezoid branch tests, of the arbitrary-gradient detection and of the
                                    time_range block selection (each must have the transcribed shape)
  * Sequence/sequence.py::get_gradients      the padding constant teps
  * Sequence/sequence.py::calculate_kspace   t_acc (1e-10 grid), the reset / negation statements
  * Sequence/sequence.py::rf_times  the strings that select excitation / refocusing
  * Sequence/sequence.py::adc_times the sample time expression
  * calc_rf_center.py               the plateau threshold 0.99999
and emits coq/Gen/GenExport.v.  Fingerprints: waveforms, waveforms_and_times, get_gradients, calculate_kspace,
rf_times, adc_times, calc_rf_center, cumsum.
"""
import ast
import math
from fractions import Fraction

from translate import (parse, func, method, assign_value, const_num, coq_Q, unparse, strip_doc, HEADER,
                       TranslateError, CONSTS)

SEQ = 'Sequence/sequence.py'


def _seq_method(name):
    tree, _ = parse(SEQ)
    return method(tree, 'Sequence', name)


def _eps():
    tree, _ = parse('__init__.py')
    found = [n.value for n in tree.body if isinstance(n, ast.Assign) and len(n.targets) == 1
             and isinstance(n.targets[0], ast.Name) and n.targets[0].id == 'eps']
    if len(found) != 1:
        raise TranslateError('expected exactly one top-level assignment to eps')
    txt = unparse(found[0])
    if txt == '10 ** np.floor(np.log10(np.spacing(1000000.0) * 10))':
        # spacing(1e6) = 2**-33 for binary64 (1e6 in [2**19, 2**20)): evaluated here, not in the repo
        return Fraction(10) ** int(math.floor(math.log10(2.0 ** -33 * 10)))
    try:
        return const_num(found[0])
    except TranslateError:
        raise TranslateError('eps is defined by an unknown expression: %s' % txt)


def _find(fn, pred, what):
    hits = [n for n in ast.walk(fn) if pred(n)]
    if not hits:
        raise TranslateError('%s: pattern not found in %s' % (what, fn.name))
    return hits


def _bytes(s):
    return '[' + '; '.join('%d%%Z' % b for b in s.encode()) + ']'


def sec_export():
    eps = _eps()
    wf = _seq_method('waveforms')
    src = unparse(wf)
    # joining rule
    need = [
        ('cur if prev[0, -1] + eps < cur[0, 0] else cur[:, 1:]', 'duplicate-drop rule'),
        ('zip(shape_pieces[j][:-1], shape_pieces[j][1:])', 'duplicate-drop pairing'),
        ('np.any(rftdiff < eps)', 'monotonicity check'),
        ('rftdiff = np.diff(wave_data[j][0])', 'monotonicity check operand'),
        ('tt_rast = grad.tt / self.grad_raster_time + 0.5', 'arbitrary-gradient detection'),
        ('np.all(np.abs(tt_rast - np.arange(1, len(tt_rast) + 1)) < eps)', 'arbitrary-gradient detection test'),
        ('np.concatenate(([0], grad.tt, [grad.tt[-1] + self.grad_raster_time / 2]))', 'arbitrary-gradient times'),
        ('np.concatenate(([grad.first], grad.waveform, [grad.last]))', 'arbitrary-gradient values'),
        ('curr_dur + grad.delay + grad.tt', 'extended trapezoid times'),
        ('abs(grad.flat_time) > eps', 'trapezoid flat test'),
        ('abs(grad.rise_time) > eps and abs(grad.fall_time) > eps', 'triangle test'),
        ('cumsum(curr_dur + grad.delay, grad.rise_time, grad.flat_time, grad.fall_time)', 'trapezoid times'),
        ('cumsum(curr_dur + grad.delay, grad.rise_time, grad.fall_time)', 'triangle times'),
        ('grad.amplitude * np.array([0, 1, 1, 0])', 'trapezoid values'),
        ('grad.amplitude * np.array([0, 1, 0])', 'triangle values'),
        ('begin_block = np.searchsorted(t, time_range[0])', 'time_range begin'),
        ("end_block = np.searchsorted(t - bd, time_range[1], side='right')", 'time_range end'),
        ('curr_dur = t[begin_block] - bd[begin_block]', 'time_range start time'),
        ('curr_dur += self.block_durations[block_counter]', 'block start accumulation'),
    ]
    for pat, what in need:
        if pat not in src:
            raise TranslateError('waveforms: %s changed (expected `%s`)' % (what, pat))
    gg = _seq_method('get_gradients')
    teps = const_num(assign_value(gg, 'teps'))
    gsrc = unparse(gg)
    for pat, what in [('np.array(([gw[0, 0] - 2 * teps, gw[0, 0] - teps], [0, 0]))', 'left padding'),
                      ('np.array(([gw[0, -1] + teps, gw[0, -1] + 2 * teps], [0, 0]))', 'right padding'),
                      ('PPoly(np.stack((np.diff(gw[1]) / np.diff(gw[0]), gw[1][:-1])), gw[0], extrapolate=True)',
                       'PPoly construction')]:
        if pat not in gsrc:
            raise TranslateError('get_gradients: %s changed' % what)
    ks = _seq_method('calculate_kspace')
    t_acc = const_num(assign_value(ks, 't_acc'))
    ksrc = unparse(ks)
    for pat, what in [('dk = -k_traj[:, 0]', 'initial dk'),
                      ('dk = -k_traj[:, i_period]', 'excitation reset'),
                      ('dk = -2 * k_traj[:, i_period] - dk', 'refocusing negation'),
                      ('k_traj[:, i_period:i_period_end] = k_traj[:, i_period:i_period_end] + dk[:, None]',
                       'period update'),
                      ('i_periods = np.unique([0, *i_excitation, *i_refocusing, len(t_ktraj) - 1])', 'periods'),
                      ('gm_pp.append(gw_pp[i].antiderivative())', 'antiderivative'),
                      ('k_traj_adc = k_traj[:, i_adc]', 'adc lookup')]:
        if pat not in ksrc:
            raise TranslateError('calculate_kspace: %s changed' % what)
    # order of the two branches: excitation tested first, refocusing in the elif
    ifs = _find(ks, lambda n: isinstance(n, ast.If) and 'i_excitation[ii_next_excitation] == i_period' in unparse(n.test),
                'excitation branch')
    br = ifs[0]
    if not (len(br.orelse) == 1 and isinstance(br.orelse[0], ast.If)
            and 'i_refocusing[ii_next_refocusing] == i_period' in unparse(br.orelse[0].test)
            and not br.orelse[0].orelse):
        raise TranslateError('calculate_kspace: excitation / refocusing branch structure changed')
    rt = _seq_method('rf_times')
    ifs = _find(rt, lambda n: isinstance(n, ast.If) and "hasattr(rf, 'use')" in unparse(n.test), 'use test')
    br = ifs[0]
    t = br.test
    if not (isinstance(t, ast.BoolOp) and isinstance(t.op, ast.Or) and len(t.values) == 2
            and unparse(t.values[0]) == "not hasattr(rf, 'use')"
            and isinstance(t.values[1], ast.Compare) and isinstance(t.values[1].ops[0], ast.In)
            and unparse(t.values[1].left) == 'block.rf.use' and isinstance(t.values[1].comparators[0], ast.List)):
        raise TranslateError('rf_times: excitation test changed: %s' % unparse(t))
    exc_uses = []
    for e in t.values[1].comparators[0].elts:
        if not (isinstance(e, ast.Constant) and isinstance(e.value, str)):
            raise TranslateError('rf_times: non-string in excitation use list')
        exc_uses.append(e.value)
    if 't_excitation.append(curr_dur + t)' not in unparse(br.body[0]):
        raise TranslateError('rf_times: excitation branch body changed')
    if not (len(br.orelse) == 1 and isinstance(br.orelse[0], ast.If) and not br.orelse[0].orelse):
        raise TranslateError('rf_times: refocusing branch structure changed')
    t2 = br.orelse[0].test
    if not (isinstance(t2, ast.Compare) and isinstance(t2.ops[0], ast.Eq) and unparse(t2.left) == 'block.rf.use'
            and isinstance(t2.comparators[0], ast.Constant) and isinstance(t2.comparators[0].value, str)):
        raise TranslateError('rf_times: refocusing test changed: %s' % unparse(t2))
    ref_use = t2.comparators[0].value
    if 't_refocusing.append(curr_dur + t)' not in unparse(br.orelse[0].body[0]):
        raise TranslateError('rf_times: refocusing branch body changed')
    if 't = rf.delay + calc_rf_center(rf)[0]' not in unparse(rt):
        raise TranslateError('rf_times: centre expression changed')
    at = _seq_method('adc_times')
    if '(np.arange(block.adc.num_samples) + 0.5) * block.adc.dwell + block.adc.delay + curr_dur' not in unparse(at):
        raise TranslateError('adc_times: sample time expression changed')
    tree, _ = parse('calc_rf_center.py')
    cf = func(tree, 'calc_rf_center')
    csrc = unparse(cf)
    thr = None
    for n in ast.walk(cf):
        if isinstance(n, ast.Compare) and isinstance(n.ops[0], ast.GtE) and unparse(n.left) == 'np.abs(rf.signal)':
            r = n.comparators[0]
            if isinstance(r, ast.BinOp) and isinstance(r.op, ast.Mult) and unparse(r.left) == 'rf_max':
                thr = const_num(r.right)
    if thr is None:
        raise TranslateError('calc_rf_center: plateau threshold not found')
    for pat in ['rf_max = np.max(np.abs(rf.signal))', 'time_center = (rf.t[i_peak[0]] + rf.t[i_peak[-1]]) / 2']:
        if pat not in csrc:
            raise TranslateError('calc_rf_center: `%s` changed' % pat)
    CONSTS['export_eps'] = eps
    CONSTS['export_exc_uses'] = exc_uses
    CONSTS['export_ref_use'] = ref_use
    out = HEADER % ('__init__.py (eps), Sequence/sequence.py::waveforms/get_gradients/calculate_kspace/rf_times/'
                    'adc_times, calc_rf_center.py')
    out += 'Definition eps : Q := %s.\n' % coq_Q(eps)
    out += 'Definition teps : Q := %s.\n' % coq_Q(teps)
    out += 'Definition t_acc : Q := %s.\n' % coq_Q(t_acc)
    out += 'Definition rf_peak_threshold : Q := %s.\n' % coq_Q(thr)
    out += '(* rf.use strings as byte lists: excitation when the attribute is absent or one of these *)\n'
    out += 'Definition rf_use_excitation : list (list Z) := [%s].\n' % '; '.join(_bytes(s) for s in exc_uses)
    out += 'Definition rf_use_refocusing : list Z := %s.\n' % _bytes(ref_use)
    return out


SECTIONS = {'GenExport': sec_export}


def _cumsum():
    tree, _ = parse('utils/cumsum.py')
    return func(tree, 'cumsum')


def _rfc():
    tree, _ = parse('calc_rf_center.py')
    return func(tree, 'calc_rf_center')


FP_SOURCES = {
    'sequence.waveforms': lambda: strip_doc(_seq_method('waveforms')),
    'sequence.waveforms_and_times': lambda: strip_doc(_seq_method('waveforms_and_times')),
    'sequence.get_gradients': lambda: strip_doc(_seq_method('get_gradients')),
    'sequence.calculate_kspace': lambda: strip_doc(_seq_method('calculate_kspace')),
    'sequence.rf_times': lambda: strip_doc(_seq_method('rf_times')),
    'sequence.adc_times': lambda: strip_doc(_seq_method('adc_times')),
    'calc_rf_center': lambda: strip_doc(_rfc()),
    'utils.cumsum': lambda: strip_doc(_cumsum()),
}
FP_GROUPS = {
    'FP_export': ['sequence.waveforms', 'sequence.waveforms_and_times', 'sequence.get_gradients', 'utils.cumsum'],
    'FP_kspace': ['sequence.calculate_kspace', 'sequence.rf_times', 'sequence.adc_times', 'calc_rf_center',
                  'sequence.get_gradients', 'sequence.waveforms'],
}
