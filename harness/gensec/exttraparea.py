"""gensec/exttraparea.py — translator plug-in for C12 (make_extended_trapezoid_area).

Reads from the CURRENT source (Python ast, nothing imported or executed):
  * the two safety factors       `max_slew = system.max_slew * 0.99`, `max_grad = system.max_grad * 0.99`
  * the three filter tolerances  `(abs(grad_amp) <= max_grad + 1e-8) & (slew_rate1 <= max_slew + 1e-8) & ...`
  * the final area tolerance     `if not abs(grad.area - area) < 1e-8`
  * the lower bound of the linear search `max(round(...), 2)`
  * pypulseq.eps (checked to be the known defining expression, value 1e-9)
and checks (fail-closed) the shape of every expression the hand-written model hard-wires: the analytic plateau
amplitude, the two slew expressions, the two max-slew candidate formulas and their branch tests, the rastering
helpers, the search loops, the final construction, and the checks of make_extended_trapezoid.
Function bodies are additionally fingerprinted (FP_exttraparea)."""
import ast

from translate import (HEADER, TranslateError, CONSTS, assign_value, coq_Q, coq_Z, const_int, const_num, func, parse,
                       strip_doc, unparse)

FILE = 'make_extended_trapezoid_area.py'


def _top():
    tree, _ = parse(FILE)
    return func(tree, 'make_extended_trapezoid_area')


def _nested(fn, name):
    for st in fn.body:
        if isinstance(st, ast.FunctionDef) and st.name == name:
            return st
    raise TranslateError('nested function %s not found' % name)


def _factor(fn, name, attr):
    v = assign_value(fn, name)
    if not (isinstance(v, ast.BinOp) and isinstance(v.op, ast.Mult) and unparse(v.left) == 'system.' + attr):
        raise TranslateError('`%s = system.%s * <factor>` expected, found `%s`' % (name, attr, unparse(v)))
    return const_num(v.right)


def _plus_tol(node, lhs, rhs_name):
    """`lhs <= rhs_name + tol` -> tol"""
    if isinstance(node, ast.Compare) and len(node.ops) == 1 and isinstance(node.ops[0], ast.LtE) \
            and unparse(node.left) == lhs:
        r = node.comparators[0]
        if isinstance(r, ast.BinOp) and isinstance(r.op, ast.Add) and unparse(r.left) == rhs_name:
            return const_num(r.right)
    raise TranslateError('`%s <= %s + tol` expected, found `%s`' % (lhs, rhs_name, unparse(node)))


def _expect(fn, table, where):
    for k, v in table.items():
        got = unparse(assign_value(fn, k))
        if got != v:
            raise TranslateError('%s: `%s = %s` expected, found `%s`' % (where, k, v, got))


def _flatten_and(node):
    if isinstance(node, ast.BinOp) and isinstance(node.op, ast.BitAnd):
        return _flatten_and(node.left) + _flatten_and(node.right)
    return [node]


def sec_exttraparea():
    fn = _top()
    fs = _nested(fn, '_find_solution')
    tr = _nested(fn, '_to_raster')
    cr = _nested(fn, '_calc_ramp_time')
    # signature: the model takes the system as an explicit argument; the code must take `system=None` and resolve it to the
    # CURRENT Opts.default inside the body on every call (first statement).  A default bound at import time
    # (`system=Opts.default`), extra parameters, *args/**kwargs or keyword-only parameters are outside the model: fail closed.
    sa = fn.args
    names = [x.arg for x in sa.args]
    defaults = [unparse(d) for d in sa.defaults]
    if names != ['area', 'channel', 'grad_start', 'grad_end', 'convert_to_arbitrary', 'system'] \
            or defaults != ['False', 'None'] or sa.vararg or sa.kwarg or sa.kwonlyargs or getattr(sa, 'posonlyargs', []):
        raise TranslateError('make_extended_trapezoid_area: signature changed: (%s) defaults %s' % (', '.join(names), defaults))
    body0 = strip_doc(fn)
    if not body0 or unparse(body0[0]) != 'if system is None:\n    system = Opts.default':
        raise TranslateError('make_extended_trapezoid_area: `if system is None: system = Opts.default` must be the first statement')
    f_slew = _factor(fn, 'max_slew', 'max_slew')
    f_grad = _factor(fn, 'max_grad', 'max_grad')
    if unparse(assign_value(fn, 'raster_time')) != 'system.grad_raster_time':
        raise TranslateError('raster_time is not system.grad_raster_time')
    if unparse(tr.body[-1]) != 'return np.ceil(time / raster_time) * raster_time':
        raise TranslateError('_to_raster changed: %s' % unparse(tr.body[-1]))
    if unparse(cr.body[-1]) != 'return _to_raster(abs(grad_1 - grad_2) / max_slew)':
        raise TranslateError('_calc_ramp_time changed: %s' % unparse(cr.body[-1]))

    # ---- _find_solution: filter with tolerances
    vals = [n.value for n in ast.walk(fs) if isinstance(n, ast.Assign) and len(n.targets) == 1
            and unparse(n.targets[0]) == 'valid_indices']
    if len(vals) != 2 or unparse(vals[0]) != 'flat_time >= 0':
        raise TranslateError('valid_indices assignments changed')
    parts = _flatten_and(vals[1])
    if len(parts) != 3:
        raise TranslateError('limit filter is not a conjunction of three comparisons')
    tol_amp = _plus_tol(parts[0], 'abs(grad_amp)', 'max_grad')
    tol_s1 = _plus_tol(parts[1], 'slew_rate1', 'max_slew')
    tol_s2 = _plus_tol(parts[2], 'slew_rate2', 'max_slew')
    _expect(fs, {
        'grad_amp': '-(time_ramp_up * raster_time * grad_start + time_ramp_down * raster_time * grad_end - 2 * area) / '
                    '((time_ramp_up + 2 * flat_time + time_ramp_down) * raster_time)',
        'slew_rate1': 'abs(grad_start - grad_amp) / (time_ramp_up * raster_time)',
        'slew_rate2': 'abs(grad_end - grad_amp) / (time_ramp_down * raster_time)',
        'solutions': 'np.flatnonzero(valid_indices)',
    }, '_find_solution')
    src = unparse(fs)
    need = [
        'ramp_up_time = (duration * max_slew * raster_time - grad_start + grad_end) / (2 * max_slew * raster_time)',
        'ramp_up_time = (duration * max_slew * raster_time + grad_start - grad_end) / (2 * max_slew * raster_time)',
        'ramp_up_time = round(ramp_up_time)',
        'if grad_start + ramp_up_time * max_slew * raster_time > max_grad + eps:',
        'if grad_start - ramp_up_time * max_slew * raster_time < -max_grad - eps:',
        'ramp_up_time = round(_calc_ramp_time(grad_start, max_grad) / raster_time)',
        'ramp_down_time = round(_calc_ramp_time(grad_end, max_grad) / raster_time)',
        'ramp_up_time = round(_calc_ramp_time(grad_start, -max_grad) / raster_time)',
        'ramp_down_time = round(_calc_ramp_time(grad_end, -max_grad) / raster_time)',
        'ramp_down_time = duration - ramp_up_time',
        'if ramp_up_time > 0 and ramp_down_time > 0 and (ramp_up_time + ramp_down_time <= duration):',
        'for ramp_up_time in range(1, duration):',
        'ramp_down_times.append(duration - ramp_up_time)',
        'flat_time = duration - time_ramp_up - time_ramp_down',
        'if solutions.shape[0] == 0:\n        return None',
        'ind = np.argmin(slew_rate1[valid_indices] + slew_rate2[valid_indices])',
        'ind = solutions[ind]',
        'return (int(time_ramp_up[ind]), int(flat_time[ind]), int(time_ramp_down[ind]), float(grad_amp[ind]))',
    ]
    for frag in need:
        if frag not in src:
            raise TranslateError('_find_solution: expected `%s`' % frag)

    # ---- outer search
    md = assign_value(fn, 'min_duration')
    if not (isinstance(md, ast.Call) and unparse(md.func) == 'max' and len(md.args) == 2
            and unparse(md.args[0]) == 'round(_calc_ramp_time(grad_end, grad_start) / raster_time)'):
        raise TranslateError('min_duration expression changed: %s' % unparse(md))
    min_floor = const_int(md.args[1])
    osrc = unparse(fn)
    need2 = [
        'max_duration = max(round(_calc_ramp_time(0, grad_start) / raster_time), '
        'round(_calc_ramp_time(0, grad_end) / raster_time), min_duration)',
        'for duration in range(min_duration, max_duration + 1):\n        solution = _find_solution(duration)\n'
        '        if solution:\n            break',
        'while not solution:\n            max_duration *= 2\n            solution = _find_solution(max_duration)',
        'if lower_limit == upper_limit - 1:\n                return fun(upper_limit)',
        'test_value = (upper_limit + lower_limit) // 2',
        'if fun(test_value):\n                return binary_search(fun, lower_limit, test_value)\n'
        '            else:\n                return binary_search(fun, test_value, upper_limit)',
        'solution = binary_search(_find_solution, max_duration // 2, max_duration)',
        'linear_search_end = max_duration',
        'for duration in range(max(linear_search_end + 1, shortest_conceivable), solution[0] + solution[1] + solution[2]):\n'
        '            shorter_solution = _find_solution(duration)\n'
        '            if shorter_solution:\n                solution = shorter_solution\n                break',
        'time_ramp_up = solution[0] * raster_time',
        'flat_time = solution[1] * raster_time',
        'time_ramp_down = solution[2] * raster_time',
        'grad_amp = solution[3]',
        'if flat_time > 0:\n        times = cumsum(0, time_ramp_up, flat_time, time_ramp_down)\n'
        '        amplitudes = np.array([grad_start, grad_amp, grad_amp, grad_end])\n'
        '    else:\n        times = cumsum(0, time_ramp_up, time_ramp_down)\n'
        '        amplitudes = np.array([grad_start, grad_amp, grad_end])',
        'grad = make_extended_trapezoid(channel=channel, amplitudes=amplitudes, '
        'convert_to_arbitrary=convert_to_arbitrary, system=system, times=times)',
        'return (grad, grad.tt, grad.waveform)',
    ]
    for frag in need2:
        if frag not in osrc:
            raise TranslateError('make_extended_trapezoid_area: expected `%s`' % frag)
    # rescan lower bound: `shortest_conceivable = int(abs(area) / ((max_grad + tol) * raster_time))`
    sc = assign_value(fn, 'shortest_conceivable')
    ok = (isinstance(sc, ast.Call) and unparse(sc.func) == 'int' and len(sc.args) == 1 and isinstance(sc.args[0], ast.BinOp)
          and isinstance(sc.args[0].op, ast.Div) and unparse(sc.args[0].left) == 'abs(area)')
    sc_tol = None
    if ok:
        den = sc.args[0].right
        if isinstance(den, ast.BinOp) and isinstance(den.op, ast.Mult) and unparse(den.right) == 'raster_time' \
                and isinstance(den.left, ast.BinOp) and isinstance(den.left.op, ast.Add) \
                and unparse(den.left.left) == 'max_grad':
            sc_tol = const_num(den.left.right)
    if sc_tol is None:
        raise TranslateError('`shortest_conceivable = int(abs(area) / ((max_grad + tol) * raster_time))` expected, found `%s`'
                             % unparse(sc))
    # final area check: `if not abs(grad.area - area) < tol: raise`
    area_tol = None
    for n in ast.walk(fn):
        if isinstance(n, ast.If) and isinstance(n.test, ast.UnaryOp) and isinstance(n.test.op, ast.Not):
            c = n.test.operand
            if isinstance(c, ast.Compare) and unparse(c.left) == 'abs(grad.area - area)' and len(c.ops) == 1 \
                    and isinstance(c.ops[0], ast.Lt) and isinstance(n.body[0], ast.Raise):
                area_tol = const_num(c.comparators[0])
    if area_tol is None:
        raise TranslateError('final area check `if not abs(grad.area - area) < tol: raise` not found')

    # ---- make_extended_trapezoid: checks on the non-arbitrary path
    t2, _ = parse('make_extended_trapezoid.py')
    m = func(t2, 'make_extended_trapezoid')
    msrc = unparse(m)
    need3 = [
        'if np.all(times == 0):',
        'if np.any(np.diff(times) <= 0):',
        'if abs(round(times[-1] / system.grad_raster_time) * system.grad_raster_time - times[-1]) > eps:',
        'if skip_check is False and times[0] > 0 and (amplitudes[0] != 0):',
        'if max_grad <= 0:\n        max_grad = system.max_grad',
        'if max_slew <= 0:\n        max_slew = system.max_slew',
        'if np.any(np.abs(np.round(times / system.grad_raster_time) * system.grad_raster_time - times) > eps):',
        'grad.waveform = amplitudes',
        'grad.delay = round(times[0] / system.grad_raster_time) * system.grad_raster_time',
        'grad.tt = times - grad.delay',
        'grad.area = 0.5 * ((grad.tt[1:] - grad.tt[:-1]) * (grad.waveform[1:] + grad.waveform[:-1])).sum()',
        'slew = np.diff(grad.waveform) / np.diff(grad.tt)',
        'if max(abs(slew)) > max_slew * (1 + eps):',
        'if max(abs(grad.waveform)) > max_grad + eps:',
    ]
    need3 += [
        # convert_to_arbitrary branch and the first/last assignment that follows BOTH branches (function level)
        'waveform = points_to_waveform(times=times, amplitudes=amplitudes, grad_raster_time=system.grad_raster_time)',
        'grad = make_arbitrary_grad(channel=channel, waveform=waveform, system=system, max_slew=max_slew, '
        'max_grad=max_grad, delay=times[0])',
        '\n    grad.first = amplitudes[0]\n    grad.last = amplitudes[-1]\n    slew = np.diff(grad.waveform) / np.diff(grad.tt)',
    ]
    for frag in need3:
        if frag not in msrc:
            raise TranslateError('make_extended_trapezoid: expected `%s`' % frag)
    ma_ = m.args
    mdef = dict(zip([x.arg for x in ma_.args][len(ma_.args) - len(ma_.defaults):], [unparse(d) for d in ma_.defaults]))
    if mdef.get('system') != 'None' or mdef.get('max_grad') != '0' or mdef.get('max_slew') != '0' \
            or mdef.get('skip_check') != 'False' or 'if system is None:\n        system = Opts.default' not in msrc:
        raise TranslateError('make_extended_trapezoid: defaults of system/max_grad/max_slew/skip_check changed: %s' % mdef)
    t4, _ = parse('points_to_waveform.py')
    psrc = unparse(func(t4, 'points_to_waveform'))
    for frag in [
        'grd = np.arange(start=round(np.min(times) / grad_raster_time), stop=round(np.max(times) / grad_raster_time)) '
        '* grad_raster_time',
        'waveform = np.interp(x=grd + grad_raster_time / 2, xp=times, fp=amplitudes)',
    ]:
        if frag not in psrc:
            raise TranslateError('points_to_waveform: expected `%s`' % frag)
    t5, _ = parse('make_arbitrary_grad.py')
    asrc = unparse(func(t5, 'make_arbitrary_grad'))
    for frag in [
        'slew_rate = np.diff(waveform) / system.grad_raster_time',
        'if max(abs(slew_rate)) > max_slew * (1 + eps):',
        'if max(abs(waveform)) > max_grad + eps:',
        'grad.waveform = waveform',
        'grad.delay = delay',
        'grad.tt = (np.arange(len(waveform)) + 0.5) * system.grad_raster_time',
        'grad.shape_dur = len(waveform) * system.grad_raster_time',
        'grad.area = (waveform * system.grad_raster_time).sum()',
    ]:
        if frag not in asrc:
            raise TranslateError('make_arbitrary_grad: expected `%s`' % frag)

    # ---- pypulseq.eps
    t3, _ = parse('__init__.py')
    epsv = None
    for st in t3.body:
        if isinstance(st, ast.Assign) and len(st.targets) == 1 and unparse(st.targets[0]) == 'eps':
            epsv = unparse(st.value)
    if epsv != '10 ** np.floor(np.log10(np.spacing(1000000.0) * 10))':
        raise TranslateError('pypulseq.eps is no longer `10 ** np.floor(np.log10(np.spacing(1e6) * 10))`: %s' % epsv)
    from fractions import Fraction
    eps = Fraction(1, 10 ** 9)      # spacing(1e6) = 2^-33 = 1.16e-10; *10 -> 1.16e-9; floor(log10) = -9

    CONSTS['eta_slew_factor'] = f_slew
    CONSTS['eta_grad_factor'] = f_grad
    CONSTS['eta_tols'] = (tol_amp, tol_s1, tol_s2, area_tol)
    out = HEADER % 'make_extended_trapezoid_area.py, make_extended_trapezoid.py, __init__.py (eps)'
    out += 'Definition eta_slew_factor : Q := %s.\n' % coq_Q(f_slew)
    out += 'Definition eta_grad_factor : Q := %s.\n' % coq_Q(f_grad)
    out += 'Definition eta_amp_tol : Q := %s.\n' % coq_Q(tol_amp)
    out += 'Definition eta_slew1_tol : Q := %s.\n' % coq_Q(tol_s1)
    out += 'Definition eta_slew2_tol : Q := %s.\n' % coq_Q(tol_s2)
    out += 'Definition eta_area_tol : Q := %s.\n' % coq_Q(area_tol)
    out += 'Definition eta_sc_tol : Q := %s.\n' % coq_Q(sc_tol)
    out += 'Definition eta_min_dur : Z := %s.\n' % coq_Z(min_floor)
    out += 'Definition eta_eps : Q := %s.\n' % coq_Q(eps)
    return out


SECTIONS = {'GenExtTrapArea': sec_exttraparea}


def _fp_top_without_nested():
    fn = _top()
    return [st for st in strip_doc(fn) if not isinstance(st, ast.FunctionDef)]


FP_SOURCES = {
    'eta.outer': _fp_top_without_nested,
    'eta._to_raster': lambda: strip_doc(_nested(_top(), '_to_raster')),
    'eta._calc_ramp_time': lambda: strip_doc(_nested(_top(), '_calc_ramp_time')),
    'eta._find_solution': lambda: strip_doc(_nested(_top(), '_find_solution')),
    'make_extended_trapezoid': lambda: strip_doc(func(parse('make_extended_trapezoid.py')[0], 'make_extended_trapezoid')),
    'cumsum': lambda: strip_doc(func(parse('utils/cumsum.py')[0], 'cumsum')),
    'points_to_waveform': lambda: strip_doc(func(parse('points_to_waveform.py')[0], 'points_to_waveform')),
    'make_arbitrary_grad': lambda: strip_doc(func(parse('make_arbitrary_grad.py')[0], 'make_arbitrary_grad')),
}
FP_GROUPS = {'FP_exttraparea': list(FP_SOURCES)}
