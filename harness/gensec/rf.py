"""gensec/rf.py — translator plug-in for C13 (RF pulse makers).

Reads make_sinc_pulse.py, make_gauss_pulse.py, make_block_pulse.py, make_arbitrary_rf.py, make_adiabatic_pulse.py,
calc_duration.py, supported_labels_rf_use.py and pypulseq/__init__.py with `ast` and emits coq/Gen/GenRf.v:

  * the arithmetic expressions the property is about (flip-angle normalisation, sample-time formula, shape_dur,
    slice-gradient amplitude / flat area, rephaser area, the two delay-coupling assignments, block-pulse duration
    defaults, RF event duration) are TRANSLATED expression by expression into Gallina functions over Q
    (`np.pi` -> argument `pi`, `np.sum(signal)` -> argument `sum_signal`, `math.ceil` -> `Qceiling`);
    the model (Model/Rf.v) calls these generated functions and the theorems are proved about them, so an edit of
    any of these expressions re-runs the proofs against the code as it is now;
  * the conditions that guard them (`rf.dead_time > rf.delay`, `rf.delay > gz.rise_time`, ...), the sample-count
    expression, the make_trapezoid calls and the raise guards are compared as unparsed strings (fail-closed);
  * the tuple of supported RF uses and `eps`.
Fingerprints of the maker bodies (docstring stripped) and of make_trapezoid are recorded in rf.fp.json.
"""
import ast

from translate import (parse, func, const_num, coq_Q, unparse, strip_doc, HEADER, TranslateError, CONSTS)


# ---------------------------------------------------------------------------------------------------------------
# expression translator: Python arithmetic expression -> Gallina term over Q
def _name_of(node):
    """dotted name -> identifier (gz.rise_time -> gz_rise_time); None if not a plain dotted name"""
    if isinstance(node, ast.Name):
        return node.id
    if isinstance(node, ast.Attribute):
        b = _name_of(node.value)
        return None if b is None else b + '_' + node.attr
    return None


class Xl:
    def __init__(self, params, what):
        self.params = params
        self.what = what
        self.used = set()

    def bad(self, node, why):
        raise TranslateError('%s: cannot translate `%s` (%s)' % (self.what, unparse(node)[:80], why))

    def var(self, node, nm):
        if nm not in self.params:
            self.bad(node, 'free name %s is not one of %s' % (nm, self.params))
        self.used.add(nm)
        return nm

    def tr(self, n):
        if isinstance(n, ast.Constant):
            return coq_Q(const_num(n))
        if isinstance(n, ast.UnaryOp):
            if isinstance(n.op, ast.USub):
                return '(- %s)' % self.tr(n.operand)
            if isinstance(n.op, ast.UAdd):
                return self.tr(n.operand)
            self.bad(n, 'unary operator')
        if isinstance(n, ast.BinOp):
            ops = {ast.Add: '+', ast.Sub: '-', ast.Mult: '*', ast.Div: '/'}
            for k, s in ops.items():
                if isinstance(n.op, k):
                    return '(%s %s %s)' % (self.tr(n.left), s, self.tr(n.right))
            self.bad(n, 'binary operator')
        if isinstance(n, ast.Call):
            f = unparse(n.func)
            args = [unparse(a) for a in n.args]
            if n.keywords:
                self.bad(n, 'keyword arguments')
            if f == 'math.ceil' and len(n.args) == 1:
                return '(inject_Z (Qceiling %s))' % self.tr(n.args[0])
            if f in ('abs', 'np.abs') and len(n.args) == 1:
                return '(Qabs %s)' % self.tr(n.args[0])
            if f == 'np.sum' and args == ['signal']:
                return self.var(n, 'sum_signal')
            if f == 'np.sum' and args == ['signal * dwell']:
                return '(%s * %s)' % (self.var(n, 'sum_signal'), self.var(n, 'dwell'))
            if f == 'np.ones_like' and args == ['t']:
                return '(1 # 1)'
            if f == 'np.arange' and args == ['1', 'n_samples + 1']:
                return self.var(n, 'k1')        # index running over 1 .. n_samples
            if f == 'np.arange' and args == ['n_samples']:
                return self.var(n, 'k0')        # index running over 0 .. n_samples-1
            if f == 'np.array' and args == ['[0, n_samples]']:
                return self.var(n, 'k0n')       # the two values 0 and n_samples
            self.bad(n, 'call')
        nm = _name_of(n)
        if nm is not None:
            if nm == 'np_pi':
                return self.var(n, 'pi')
            return self.var(n, nm)
        self.bad(n, 'node type %s' % type(n).__name__)


def gallina(defname, params, node, what):
    x = Xl(params, what)
    body = x.tr(node)
    unused = [p for p in params if p not in x.used]
    if unused:
        raise TranslateError('%s: `%s` no longer mentions %s' % (what, unparse(node)[:80], unused))
    return '(* %s :  %s *)\nDefinition %s %s : Q :=\n  %s.\n' % (
        what, unparse(node), defname, ' '.join('(%s : Q)' % p for p in params), body)


# ---------------------------------------------------------------------------------------------------------------
def assigns(fn, target):
    """value nodes of all simple assignments `target = ...` in fn (source order); target as unparsed text"""
    out = []
    for n in ast.walk(fn):
        if isinstance(n, ast.Assign) and len(n.targets) == 1 and unparse(n.targets[0]) == target:
            out.append((n.lineno, n.col_offset, n.value))
    out.sort(key=lambda t: (t[0], t[1]))
    return [v for _, _, v in out]


def one_assign(fn, target, what):
    v = assigns(fn, target)
    if len(v) != 1:
        raise TranslateError('%s: expected exactly one assignment to %s, found %d' % (what, target, len(v)))
    return v[0]


def expect_assign(fn, target, text, what, index=None, count=None):
    v = assigns(fn, target)
    if count is not None and len(v) != count:
        raise TranslateError('%s: expected %d assignments to %s, found %d' % (what, count, target, len(v)))
    if index is None:
        if len(v) != 1:
            raise TranslateError('%s: expected exactly one assignment to %s, found %d' % (what, target, len(v)))
        index = 0
    got = unparse(v[index])
    if got != text:
        raise TranslateError('%s: `%s = %s` expected, found `%s`' % (what, target, text, got))


def find_if(fn, test_text, what):
    hits = [n for n in ast.walk(fn) if isinstance(n, ast.If) and unparse(n.test) == test_text]
    if len(hits) != 1:
        raise TranslateError('%s: expected exactly one `if %s:`, found %d' % (what, test_text, len(hits)))
    return hits[0]


def if_body_texts(node):
    return [unparse(st) for st in node.body if not (isinstance(st, ast.Expr) and isinstance(st.value, ast.Call)
                                                     and unparse(st.value.func) == 'warn')]


def expect_if(fn, test_text, body_texts, what, orelse=None):
    n = find_if(fn, test_text, what)
    got = if_body_texts(n)
    if got != body_texts:
        raise TranslateError('%s: body of `if %s:` is %s, expected %s' % (what, test_text, got, body_texts))
    if orelse is not None:
        go = [unparse(st) for st in n.orelse]
        if go != orelse:
            raise TranslateError('%s: else-branch of `if %s:` is %s, expected %s' % (what, test_text, go, orelse))
    elif n.orelse:
        raise TranslateError('%s: unexpected else-branch of `if %s:`' % (what, test_text))
    return n


def expect_raise_if(fn, test_text, exc, what):
    n = find_if(fn, test_text, what)
    ok = len(n.body) == 1 and isinstance(n.body[0], ast.Raise) and isinstance(n.body[0].exc, ast.Call) \
        and unparse(n.body[0].exc.func) == exc and not n.orelse
    if not ok:
        raise TranslateError('%s: `if %s:` must consist of `raise %s(...)`' % (what, test_text, exc))


def expect_src(fn, text, what):
    if text not in unparse(fn):
        raise TranslateError('%s: expected `%s`' % (what, text))


GZ_CALL = "make_trapezoid(channel='z', system=system, flat_time=duration, flat_area=area)"
GZR_CALL_HEAD = "make_trapezoid(channel='z', system=system, area="
DEAD_IF = ('rf.dead_time > rf.delay', ['rf.delay = rf.dead_time'])
RF_FIELDS = [('rf.signal', 'signal'), ('rf.t', 't'), ('rf.freq_offset', 'freq_offset'),
             ('rf.phase_offset', 'phase_offset'), ('rf.dead_time', 'system.rf_dead_time'),
             ('rf.ringdown_time', 'system.rf_ringdown_time')]


def rf_fields(fn, what, delay_count=None):
    for tgt, txt in RF_FIELDS:
        expect_assign(fn, tgt, txt, what)
    # rf.delay: first assignment is the requested delay
    v = assigns(fn, 'rf.delay')
    if not v or unparse(v[0]) != 'delay':
        raise TranslateError('%s: first assignment to rf.delay must be `delay`' % what)
    if delay_count is not None and len(v) != delay_count:
        raise TranslateError('%s: expected %d assignments to rf.delay, found %d' % (what, delay_count, len(v)))
    expect_if(fn, DEAD_IF[0], DEAD_IF[1], what)


def coupling(fn, pre, what):
    """the two delay-coupling statements; returns Gallina text"""
    n1 = find_if(fn, 'rf.delay > gz.rise_time', what)
    if len(n1.body) != 1 or n1.orelse or not isinstance(n1.body[0], ast.Assign) or unparse(n1.body[0].targets[0]) != 'gz.delay':
        raise TranslateError('%s: body of `if rf.delay > gz.rise_time:` must be a single assignment to gz.delay' % what)
    n2 = find_if(fn, 'rf.delay < gz.rise_time + gz.delay', what)
    if len(n2.body) != 1 or n2.orelse or not isinstance(n2.body[0], ast.Assign) or unparse(n2.body[0].targets[0]) != 'rf.delay':
        raise TranslateError('%s: body of `if rf.delay < gz.rise_time + gz.delay:` must be a single assignment to rf.delay' % what)
    if n1.lineno >= n2.lineno:
        raise TranslateError('%s: order of the delay-coupling statements changed' % what)
    if len(assigns(fn, 'gz.delay')) != 1:
        raise TranslateError('%s: gz.delay is assigned more than once' % what)
    out = gallina(pre + '_gz_delay', ['rf_delay', 'gz_rise_time', 'system_grad_raster_time'], n1.body[0].value,
                  what + ' gz.delay')
    out += gallina(pre + '_rf_delay', ['gz_rise_time', 'gz_delay'], n2.body[0].value, what + ' rf.delay')
    return out


def overrides(fn, what):
    expect_if(fn, 'max_grad > 0', ['system = copy(system)', 'system.max_grad = max_grad'], what)
    expect_if(fn, 'max_slew > 0', ['system = copy(system)', 'system.max_slew = max_slew'], what)


def shaped(fname, fn_name, pre):
    """make_sinc_pulse / make_gauss_pulse"""
    tree, _ = parse(fname)
    fn = func(tree, fn_name)
    what = fn_name
    out = ''
    expect_if(fn, 'dwell == 0', ['dwell = system.rf_raster_time'], what)
    expect_assign(fn, 'n_samples', 'round(duration / dwell)', what)
    out += gallina(pre + '_t', ['k1', 'dwell'], one_assign(fn, 't', what), what + ' t')
    expect_assign(fn, 'tt', 't - duration * center_pos', what)
    sig = assigns(fn, 'signal')
    if len(sig) != 2:
        raise TranslateError('%s: expected 2 assignments to signal, found %d' % (what, len(sig)))
    out += gallina(pre + '_flip', ['sum_signal', 'dwell', 'pi'], one_assign(fn, 'flip', what), what + ' flip')
    out += gallina(pre + '_scale', ['signal', 'flip_angle', 'flip'], sig[1], what + ' signal (normalised)')
    out += gallina(pre + '_shape_dur', ['n_samples', 'dwell'], one_assign(fn, 'rf.shape_dur', what), what + ' rf.shape_dur')
    rf_fields(fn, what, delay_count=3)
    expect_if(fn, "use != ''" if pre == 'gauss' else 'use != str()', ['rf.use = use'], what)
    # slice-select part
    rg = [n for n in ast.walk(fn) if isinstance(n, ast.If) and unparse(n.test) == 'return_gz']
    if len(rg) != 2:
        raise TranslateError('%s: expected two `if return_gz:` statements' % what)
    expect_raise_if(fn, 'slice_thickness == 0', 'ValueError', what)
    overrides(fn, what)
    out += gallina(pre + '_amplitude', ['bandwidth', 'slice_thickness'], one_assign(fn, 'amplitude', what), what + ' amplitude')
    out += gallina(pre + '_area', ['amplitude', 'duration'], one_assign(fn, 'area', what), what + ' area')
    if unparse(one_assign(fn, 'gz', what)) != GZ_CALL:
        raise TranslateError('%s: gz call changed: %s' % (what, unparse(one_assign(fn, 'gz', what))))
    gzr = one_assign(fn, 'gzr', what)
    if not (isinstance(gzr, ast.Call) and unparse(gzr.func) == 'make_trapezoid' and not gzr.args
            and sorted(k.arg for k in gzr.keywords) == ['area', 'channel', 'system']
            and unparse(gzr).startswith(GZR_CALL_HEAD)):
        raise TranslateError('%s: gzr call changed: %s' % (what, unparse(gzr)))
    gzr_area = [k.value for k in gzr.keywords if k.arg == 'area'][0]
    out += gallina(pre + '_gzr_area', ['area', 'center_pos', 'gz_area'], gzr_area, what + ' gzr area')
    out += coupling(fn, pre, what)
    if pre == 'sinc':
        expect_raise_if(fn, 'duration <= 0', 'ValueError', what)
        expect_assign(fn, 'bandwidth', 'time_bw_product / duration', what)
        expect_raise_if(fn, "use != '' and use not in valid_pulse_uses", 'ValueError', what)
        expect_assign(fn, 'valid_pulse_uses', 'get_supported_rf_uses()', what)
    else:
        expect_if(fn, 'bandwidth == 0', ['bandwidth = time_bw_product / duration'], what, orelse=['bandwidth = bandwidth'])
        expect_raise_if(fn, "use != '' and use not in get_supported_rf_uses()", 'ValueError', what)
    out += 'Definition %s_x : rf_exprs :=\n  mk_rf_exprs %s.\n\n' % (
        pre, ' '.join(pre + '_' + s for s in ('t', 'flip', 'scale', 'shape_dur', 'amplitude', 'area', 'gzr_area',
                                             'gz_delay', 'rf_delay')))
    return out, fn


def block():
    tree, _ = parse('make_block_pulse.py')
    fn = func(tree, 'make_block_pulse')
    what = 'make_block_pulse'
    out = ''
    d = assigns(fn, 'duration')
    if len(d) != 3:
        raise TranslateError('%s: expected 3 assignments to duration, found %d' % (what, len(d)))
    out += 'Definition block_default_duration : Q := %s.\n' % coq_Q(const_num(d[0]))
    out += gallina('block_dur_tbw', ['time_bw_product', 'bandwidth'], d[1], what + ' duration (bandwidth, tbw)')
    out += gallina('block_dur_bw', ['bandwidth'], d[2], what + ' duration (bandwidth only)')
    # the if/elif chain that selects the duration
    chain = find_if(fn, 'duration is None and bandwidth is None', what)
    tests = []
    n = chain
    while True:
        tests.append(unparse(n.test))
        if len(n.orelse) == 1 and isinstance(n.orelse[0], ast.If):
            n = n.orelse[0]
        else:
            last_else = n.orelse
            break
    want = ['duration is None and bandwidth is None',
            'duration is not None and bandwidth is not None and (duration > 0)',
            'duration is not None and duration > 0',
            'duration is None and bandwidth is not None and (bandwidth > 0)']
    if tests != want:
        raise TranslateError('%s: duration/bandwidth decision chain changed: %s' % (what, tests))
    if not (len(last_else) == 1 and isinstance(last_else[0], ast.Raise)):
        raise TranslateError('%s: final else of the decision chain must raise' % what)
    expect_if(fn, 'time_bw_product is not None and time_bw_product > 0', ['duration = time_bw_product / bandwidth'],
              what, orelse=['duration = 1 / (4 * bandwidth)'])
    expect_assign(fn, 'n_samples', 'round(duration / system.rf_raster_time)', what)
    out += gallina('block_t', ['k0n', 'system_rf_raster_time'], one_assign(fn, 't', what), what + ' t')
    out += gallina('block_signal', ['flip_angle', 'pi', 'duration'], one_assign(fn, 'signal', what), what + ' signal')
    expect_assign(fn, 'rf.shape_dur', 't[-1]', what)
    rf_fields(fn, what, delay_count=2)
    expect_if(fn, "use != ''", ['rf.use = use'], what)
    expect_raise_if(fn, "use != '' and use not in valid_use_pulses", 'ValueError', what)
    expect_assign(fn, 'valid_use_pulses', 'get_supported_rf_uses()', what)
    return out + '\n', fn


def arbitrary():
    tree, _ = parse('make_arbitrary_rf.py')
    fn = func(tree, 'make_arbitrary_rf')
    what = 'make_arbitrary_rf'
    out = ''
    expect_if(fn, 'dwell == 0', ['dwell = system.rf_raster_time'], what)
    sig = assigns(fn, 'signal')
    if len(sig) != 2 or unparse(sig[0]) != 'np.squeeze(signal)':
        raise TranslateError('%s: assignments to signal changed' % what)
    n = find_if(fn, 'not no_signal_scaling', what)
    if len(n.body) != 1 or n.orelse or n.body[0].value is not sig[1]:
        raise TranslateError('%s: `if not no_signal_scaling:` must contain exactly the scaling assignment' % what)
    out += gallina('arb_scale', ['signal', 'sum_signal', 'dwell', 'flip_angle', 'pi'], sig[1], what + ' signal (scaled)')
    expect_assign(fn, 'n_samples', 'len(signal)', what)
    d = assigns(fn, 'duration')
    if len(d) != 1:
        raise TranslateError('%s: duration assigned %d times' % (what, len(d)))
    out += gallina('arb_duration', ['n_samples', 'dwell'], d[0], what + ' duration')
    out += gallina('arb_t', ['k1', 'dwell'], one_assign(fn, 't', what), what + ' t')
    expect_assign(fn, 'rf.shape_dur', 'duration', what)
    rf_fields(fn, what, delay_count=3)
    expect_if(fn, "use != ''", ['rf.use = use'], what)
    expect_raise_if(fn, "use != '' and use not in valid_use_pulses", 'ValueError', what)
    expect_assign(fn, 'valid_use_pulses', 'get_supported_rf_uses()', what)
    expect_raise_if(fn, 'slice_thickness <= 0', 'ValueError', what)
    expect_raise_if(fn, 'bandwidth <= 0', 'ValueError', what)
    overrides(fn, what)
    expect_if(fn, 'time_bw_product > 0', ['bandwidth = time_bw_product / duration'], what)
    out += gallina('arb_amplitude', ['bandwidth', 'slice_thickness'], one_assign(fn, 'amplitude', what), what + ' amplitude')
    out += gallina('arb_area', ['amplitude', 'duration'], one_assign(fn, 'area', what), what + ' area')
    if unparse(one_assign(fn, 'gz', what)) != GZ_CALL:
        raise TranslateError('%s: gz call changed' % what)
    if assigns(fn, 'gzr'):
        raise TranslateError('%s: now builds a rephaser (model has none)' % what)
    out += coupling(fn, 'arb', what)
    return out + '\n', fn


def adiabatic():
    tree, _ = parse('make_adiabatic_pulse.py')
    fn = func(tree, 'make_adiabatic_pulse')
    what = 'make_adiabatic_pulse'
    out = ''
    expect_raise_if(fn, 'return_gz and slice_thickness <= 0', 'ValueError', what)
    expect_if(fn, 'dwell is None', ['dwell = system.rf_raster_time'], what)
    nr = one_assign(fn, 'n_raw', what)
    if unparse(nr) != 'round(duration / dwell + eps)':
        raise TranslateError('%s: n_raw changed: %s' % (what, unparse(nr)))
    ns = [unparse(v) for v in assigns(fn, 'n_samples')]
    if ns != ['math.floor(n_raw / 4) * 4', 'n_raw']:
        raise TranslateError('%s: n_samples assignments changed: %s' % (what, ns))
    expect_if(fn, 'n_samples != n_raw',
              ['n_pad = n_raw - n_samples', 'pad_left = n_pad // 2', 'pad_right = n_pad - pad_left',
               "signal = np.pad(signal, (pad_left, pad_right), mode='constant')", 'n_samples = n_raw'], what)
    out += gallina('adia_t', ['k0', 'dwell'], one_assign(fn, 't', what), what + ' t')
    out += gallina('adia_shape_dur', ['n_samples', 'dwell'], one_assign(fn, 'rf.shape_dur', what), what + ' rf.shape_dur')
    rf_fields(fn, what, delay_count=3)
    use = one_assign(fn, 'rf.use', what)
    if not (isinstance(use, ast.IfExp) and unparse(use.test) == "use != ''" and unparse(use.body) == 'use'
            and isinstance(use.orelse, ast.Constant) and isinstance(use.orelse.value, str)):
        raise TranslateError('%s: rf.use assignment changed: %s' % (what, unparse(use)))
    default_use = use.orelse.value
    # centre position handed to the rephaser formula.  Two accepted forms:
    #   center_pos, _ = calc_rf_center(rf)                  (the time of the peak in SECONDS is used as a fraction)
    #   time_center, _ = calc_rf_center(rf); center_pos = <expr over time_center, duration>
    if assigns(fn, '(center_pos, _)'):
        expect_assign(fn, '(center_pos, _)', 'calc_rf_center(rf)', what)
        if assigns(fn, 'center_pos'):
            raise TranslateError('%s: center_pos assigned twice' % what)
        out += ('(* %s center_pos :  center_pos, _ = calc_rf_center(rf)  -- a time in seconds *)\n'
                'Definition adia_center_pos (time_center : Q) (duration : Q) : Q := time_center.\n' % what)
    else:
        expect_assign(fn, '(time_center, _)', 'calc_rf_center(rf)', what)
        out += gallina('adia_center_pos', ['time_center', 'duration'], one_assign(fn, 'center_pos', what),
                       what + ' center_pos')
    out += gallina('adia_amplitude', ['bandwidth', 'slice_thickness'], one_assign(fn, 'amplitude', what), what + ' amplitude')
    out += gallina('adia_area', ['amplitude', 'duration'], one_assign(fn, 'area', what), what + ' area')
    gz = one_assign(fn, 'gz', what)
    gzr = one_assign(fn, 'gzr', what)
    want_gz = ("make_trapezoid(channel='z', system=system, flat_time=duration, flat_area=area, "
               "max_grad=max_grad_slice_select, max_slew=max_slew_slice_select)")
    if unparse(gz) != want_gz:
        raise TranslateError('%s: gz call changed: %s' % (what, unparse(gz)))
    if not (isinstance(gzr, ast.Call) and unparse(gzr.func) == 'make_trapezoid' and not gzr.args
            and sorted(k.arg for k in gzr.keywords) == ['area', 'channel', 'max_grad', 'max_slew', 'system']):
        raise TranslateError('%s: gzr call changed: %s' % (what, unparse(gzr)))
    gzr_area = [k.value for k in gzr.keywords if k.arg == 'area'][0]
    out += gallina('adia_gzr_area', ['area', 'center_pos', 'gz_area'], gzr_area, what + ' gzr area')
    out += coupling(fn, 'adia', what)
    return out + '\n', fn, default_use


def rf_uses():
    tree, _ = parse('supported_labels_rf_use.py')
    fn = func(tree, 'get_supported_rf_uses')
    rets = [n for n in ast.walk(fn) if isinstance(n, ast.Return)]
    if len(rets) != 1 or not isinstance(rets[0].value, ast.Tuple):
        raise TranslateError('get_supported_rf_uses: single `return <tuple>` expected')
    uses = []
    for e in rets[0].value.elts:
        if not (isinstance(e, ast.Constant) and isinstance(e.value, str) and e.value.isidentifier()):
            raise TranslateError('get_supported_rf_uses: non-literal / non-identifier element')
        uses.append(e.value)
    if len(set(uses)) != len(uses) or '' in uses:
        raise TranslateError('get_supported_rf_uses: duplicate or empty use')
    return uses


def eps_value():
    tree, _ = parse('__init__.py')
    vals = [n.value for n in tree.body if isinstance(n, ast.Assign) and len(n.targets) == 1
            and unparse(n.targets[0]) == 'eps']
    if len(vals) != 1 or unparse(vals[0]) != '10 ** np.floor(np.log10(np.spacing(1000000.0) * 10))':
        raise TranslateError('pypulseq.eps is no longer `10 ** np.floor(np.log10(np.spacing(1e6) * 10))`')
    # spacing(1e6) = 2^-33 ~ 1.16e-10; *10 -> 1.16e-9; floor(log10) = -9
    from fractions import Fraction
    return Fraction(1, 10 ** 9)


def trapezoid_flags():
    """make_trapezoid: the tail of the function (limit checks, optional timing check, returned fields).
    Two accepted forms of the timing check (added by a repair of the repository):
      absent, or          if -eps < flat_time < 0: flat_time = 0.0
                          if rise_time <= 0 or fall_time <= 0 or flat_time < 0: raise ValueError(...)
    placed after the three limit checks and before the event is built.  The local trapezoid model follows the flag."""
    tree, _ = parse('make_trapezoid.py')
    fn = func(tree, 'make_trapezoid')
    body = strip_doc(fn)
    texts = [unparse(st.test) if isinstance(st, ast.If) else unparse(st) for st in body]
    try:
        i0 = texts.index('rise_time is None and fall_time is None')
        i1 = texts.index('grad = SimpleNamespace()')
    except ValueError:
        raise TranslateError('make_trapezoid: tail of the function not recognised')
    mid = texts[i0 + 1:i1]
    limits = ['abs(amplitude2) > max_grad + eps', 'abs(amplitude2) / rise_time > max_slew * (1 + eps)',
              'abs(amplitude2) / fall_time > max_slew * (1 + eps)']
    timing = ['-eps < flat_time < 0', 'rise_time <= 0 or fall_time <= 0 or flat_time < 0']
    if mid == limits:
        flag = False
    elif mid == limits + timing:
        flag = True
        clamp = body[i0 + 4]
        if [unparse(st) for st in clamp.body] != ['flat_time = 0.0'] or clamp.orelse:
            raise TranslateError('make_trapezoid: body of `if -eps < flat_time < 0` changed')
        rej = body[i0 + 5]
        if not (len(rej.body) == 1 and isinstance(rej.body[0], ast.Raise) and not rej.orelse):
            raise TranslateError('make_trapezoid: timing check must raise')
    else:
        raise TranslateError('make_trapezoid: checks before the event is built changed: %s' % mid)
    for st in body[i0 + 1:i0 + 4]:
        if not (len(st.body) == 1 and isinstance(st.body[0], ast.Raise) and not st.orelse):
            raise TranslateError('make_trapezoid: limit check must raise')
    if unparse(body[i0].body[0]) != 'rise_time = fall_time = calculate_shortest_rise_time(amplitude2, max_slew, system.grad_raster_time)':
        raise TranslateError('make_trapezoid: default ramp time changed')
    for frag in ('grad.amplitude = amplitude2', 'grad.rise_time = rise_time', 'grad.flat_time = flat_time',
                 'grad.fall_time = fall_time', 'grad.area = amplitude2 * (flat_time + rise_time / 2 + fall_time / 2)',
                 'grad.flat_area = amplitude2 * flat_time', 'grad.delay = delay', 'amplitude2 = flat_area / flat_time'):
        expect_src(fn, frag, 'make_trapezoid')
    # the two helpers, as text
    h1 = func(tree, 'calculate_shortest_rise_time')
    expect_src(h1, 'return math.ceil(max(abs(amplitude) / max_slew, grad_raster_time) / grad_raster_time) * grad_raster_time',
               'calculate_shortest_rise_time')
    h2 = func(tree, 'calculate_shortest_params_for_area')
    want = ['rise_time = math.ceil(math.sqrt(abs(area) / max_slew) / grad_raster_time) * grad_raster_time',
            'rise_time = max(rise_time, grad_raster_time)', 'amplitude = area / rise_time', 'effective_time = rise_time',
            'if abs(amplitude) > max_grad + eps:\n'
            '    effective_time = math.ceil(abs(area) / max_grad / grad_raster_time) * grad_raster_time\n'
            '    amplitude = area / effective_time\n'
            '    rise_time = math.ceil(abs(amplitude) / max_slew / grad_raster_time) * grad_raster_time\n'
            '    rise_time = max(rise_time, grad_raster_time)',
            'flat_time = effective_time - rise_time', 'fall_time = rise_time',
            'return (amplitude, rise_time, flat_time, fall_time)']
    got = [unparse(st) for st in strip_doc(h2)]
    if got != want:
        raise TranslateError('calculate_shortest_params_for_area changed: %s' % got)
    CONSTS['trap_rejects_bad_times'] = flag
    return ('(* make_trapezoid: `if -eps < flat_time < 0: flat_time = 0.0` and\n'
            '   `if rise_time <= 0 or fall_time <= 0 or flat_time < 0: raise` present after the limit checks? *)\n'
            'Definition trap_rejects_bad_times : bool := %s.\n\n' % ('true' if flag else 'false'))


def calc_duration_rf():
    tree, _ = parse('calc_duration.py')
    fn = func(tree, 'calc_duration')
    n = find_if(fn, "event.type == 'rf'", 'calc_duration')
    if len(n.body) != 1 or not isinstance(n.body[0], ast.Assign) or unparse(n.body[0].targets[0]) != 'duration':
        raise TranslateError('calc_duration: rf branch changed')
    v = n.body[0].value
    if not (isinstance(v, ast.Call) and unparse(v.func) == 'max' and len(v.args) == 2 and unparse(v.args[0]) == 'duration'):
        raise TranslateError('calc_duration: rf branch is not max(duration, <expr>)')
    out = gallina('rf_event_end', ['event_delay', 'event_shape_dur', 'event_ringdown_time'], v.args[1],
                  'calc_duration rf')
    # trap branch
    hits = [m for m in ast.walk(fn) if isinstance(m, ast.If) and unparse(m.test) == "event.type == 'trap'"]
    if len(hits) != 1:
        raise TranslateError('calc_duration: trap branch not found')
    tv = hits[0].body[0].value
    if not (isinstance(tv, ast.Call) and unparse(tv.func) == 'max' and len(tv.args) == 2):
        raise TranslateError('calc_duration: trap branch is not max(duration, <expr>)')
    out += gallina('trap_event_end', ['event_delay', 'event_rise_time', 'event_flat_time', 'event_fall_time'], tv.args[1],
                   'calc_duration trap')
    return out


PRELUDE = '''From Coq Require Import Qround Qabs.
Open Scope Q_scope.

(* the expressions of one shaped-pulse maker (sinc, gauss), in the order used by Model/Rf.v *)
Record rf_exprs := mk_rf_exprs {
  x_t : Q -> Q -> Q;                 (* k1 dwell *)
  x_flip : Q -> Q -> Q -> Q;         (* sum_signal dwell pi *)
  x_scale : Q -> Q -> Q -> Q;        (* signal flip_angle flip *)
  x_shape_dur : Q -> Q -> Q;         (* n_samples dwell *)
  x_amplitude : Q -> Q -> Q;         (* bandwidth slice_thickness *)
  x_area : Q -> Q -> Q;              (* amplitude duration *)
  x_gzr_area : Q -> Q -> Q -> Q;     (* area center_pos gz_area *)
  x_gz_delay : Q -> Q -> Q -> Q;     (* rf_delay gz_rise_time system_grad_raster_time *)
  x_rf_delay : Q -> Q -> Q           (* gz_rise_time gz_delay *)
}.

'''


def sec_rf():
    uses = rf_uses()
    out = HEADER % ('make_sinc_pulse.py, make_gauss_pulse.py, make_block_pulse.py, make_arbitrary_rf.py, '
                    'make_adiabatic_pulse.py, calc_duration.py, supported_labels_rf_use.py, __init__.py (eps)')
    out += PRELUDE
    out += 'Definition rf_uses : list string := [%s]%%string.\n' % '; '.join('"%s"' % u for u in uses)
    out += 'Definition rf_uses_count : nat := %d.\n' % len(uses)
    out += 'Definition rf_eps : Q := %s.\n\n' % coq_Q(eps_value())
    s, _ = shaped('make_sinc_pulse.py', 'make_sinc_pulse', 'sinc')
    out += s
    s, _ = shaped('make_gauss_pulse.py', 'make_gauss_pulse', 'gauss')
    out += s
    s, _ = block()
    out += s
    s, _ = arbitrary()
    out += s
    s, _, default_use = adiabatic()
    out += s
    if default_use not in uses:
        raise TranslateError('adiabatic default use %r is not a supported use' % default_use)
    out += '(* 1-based index of the default use of make_adiabatic_pulse (%r) in rf_uses *)\n' % default_use
    out += 'Definition adia_default_use : nat := %d.\n\n' % (uses.index(default_use) + 1)
    out += trapezoid_flags()
    out += calc_duration_rf()
    CONSTS['rf_uses'] = uses
    CONSTS['adia_default_use'] = default_use
    return out


SECTIONS = {'GenRf': sec_rf}


def _body(fname, fn_name):
    def f():
        tree, _ = parse(fname)
        return strip_doc(func(tree, fn_name))
    return f


FP_SOURCES = {
    'make_sinc_pulse': _body('make_sinc_pulse.py', 'make_sinc_pulse'),
    'make_gauss_pulse': _body('make_gauss_pulse.py', 'make_gauss_pulse'),
    'make_block_pulse': _body('make_block_pulse.py', 'make_block_pulse'),
    'make_arbitrary_rf': _body('make_arbitrary_rf.py', 'make_arbitrary_rf'),
    'make_adiabatic_pulse': _body('make_adiabatic_pulse.py', 'make_adiabatic_pulse'),
    'make_trapezoid': _body('make_trapezoid.py', 'make_trapezoid'),
    'calculate_shortest_params_for_area': _body('make_trapezoid.py', 'calculate_shortest_params_for_area'),
    'calculate_shortest_rise_time': _body('make_trapezoid.py', 'calculate_shortest_rise_time'),
    'calc_rf_center': _body('calc_rf_center.py', 'calc_rf_center'),
}
FP_GROUPS = {
    'FP_rf_makers': ['make_sinc_pulse', 'make_gauss_pulse', 'make_block_pulse', 'make_arbitrary_rf',
                     'make_adiabatic_pulse'],
    'FP_rf_trapezoid': ['make_trapezoid', 'calculate_shortest_params_for_area', 'calculate_shortest_rise_time',
                        'calc_rf_center'],
}
