"""timinggen.py — shared by props/C10.py and props/C07.py: random systems, replayable block/event cases,
the implementation driver (case -> pypulseq Sequence), extraction of the decoded blocks as exact rationals,
their token encoding for the extracted model (ocaml/timing), and the exact-Fraction oracles."""
import math
import warnings
from fractions import Fraction
from types import SimpleNamespace

import numpy as np

from common import F, qtok, ztok

EPS = Fraction(1, 10 ** 9)          # pypulseq.eps (the check module compares it with the imported value)
TOL = Fraction(1, 10 ** 6)          # "to 1e-6 of a raster" (property text)

SLOTS = ['block', 'rf', 'gx', 'gy', 'gz', 'adc']
ATTRS = ['delay', 'shape_dur', 'ringdown_time', 'dead_time', 'rise_time', 'flat_time', 'fall_time', 'duration', 'dwell',
         'samples_dwell', 't_last']
KINDS = ['RASTER', 'NEGATIVE_DELAY', 'BLOCK_DURATION_MISMATCH', 'RF_DEAD_TIME', 'RF_RINGDOWN_TIME', 'ADC_DEAD_TIME',
         'POST_ADC_DEAD_TIME']

# (block raster, rf raster, grad raster, adc raster) as decimal strings
FAMILIES = {
    'siemens': ('1e-5', '1e-6', '1e-5', '1e-7'),
    'ge': ('4e-6', '2e-6', '4e-6', '2e-6'),
    'g20': ('2e-5', '1e-6', '2e-5', '1e-7'),
    'p64': ('6.4e-6', '6.4e-6', '6.4e-6', '1e-7'),
    'fine': ('1e-5', '5e-7', '1e-5', '5e-8'),
    # all four rasters pairwise different (a raster mix-up in the code cannot hide behind equal values)
    'b10g5': ('1e-5', '1e-6', '5e-6', '1e-7'),          # gradient raster finer than the block raster
    'b10g20': ('1e-5', '5e-7', '2e-5', '2.5e-8'),       # gradient raster coarser than the block raster
    'b20g10': ('2e-5', '2e-6', '1e-5', '5e-8'),
}


def fl(fr):
    return float(fr)


def gen_system(rng):
    name = rng.choice(['siemens', 'siemens', 'ge', 'g20', 'p64', 'fine', 'b10g5', 'b10g5', 'b10g20', 'b10g20', 'b20g10'])
    br, rr, gr, ar = (Fraction(s) for s in FAMILIES[name])
    # dead / ring-down times: mostly multiples of the rf raster, but also "measured" values that are NOT on it
    # (e.g. 100.4 us with a 1 us raster): delays then have to be rounded UP to the raster to respect them
    def mult(us_choices):
        us = rng.choice(us_choices)
        v = math.ceil(Fraction(us, 10 ** 6) / rr) * rr
        if us and rng.random() < 0.3:
            v += rng.choice([Fraction(2, 5), Fraction(3, 10), Fraction(3, 5)]) * rr
        return v
    return {'family': name, 'block': fl(br), 'rf': fl(rr), 'grad': fl(gr), 'adc': fl(ar),
            'rf_dead': fl(mult([0, 0, 50, 72, 100, 100, 150])), 'rf_ring': fl(mult([0, 0, 20, 30, 60])),
            'adc_dead': fl(mult([0, 0, 10, 20, 40]))}


def shorter_system(rng, s):
    """same rasters, shorter (or zero) dead / ring-down times"""
    a = dict(s)
    rr = F(s['rf'])
    for k in ('rf_dead', 'rf_ring', 'adc_dead'):
        n = int(F(s[k]) / rr + Fraction(1, 2))
        a[k] = fl(rng.choice([0, n // 2]) * rr) if n > 0 else 0.0
    return a


def make_opts(s):
    import pypulseq as pp
    return pp.Opts(max_grad=1e9, max_slew=1e15, rf_dead_time=s['rf_dead'], rf_ringdown_time=s['rf_ring'],
                   adc_dead_time=s['adc_dead'], rf_raster_time=s['rf'], grad_raster_time=s['grad'],
                   adc_raster_time=s['adc'], block_duration_raster=s['block'])


# ------------------------------------------------------------------------------------------------
# events: JSON-able dicts  {'k': kind, ..., 'alt': bool (built for the alternative system), 'set': {attr: value}}
def gen_event(rng, s, kind, ch=None):
    rr, gr, ar = F(s['rf']), F(s['grad']), F(s['adc'])
    if kind in ('rfb', 'rfs'):
        n = rng.randint(10, 400) if kind == 'rfs' else rng.randint(10, 3000)
        dead = F(s['rf_dead'])
        delay = (math.ceil(dead / rr - Fraction(1, 10 ** 6)) + rng.choice([0, 0, 1, 3, 17, 100])) * rr
        return {'k': kind, 'dur': fl(n * rr), 'delay': fl(delay), 'flip': rng.choice([0.2, 1.5707963, 3.14159]),
                'use': rng.choice(['', 'excitation', 'refocusing', 'inversion']), 'alt': False, 'set': {}}
    if kind == 'trap':
        return {'k': 'trap', 'ch': ch, 'amp': rng.choice([1e4, -2.5e4, 123456.0]),
                'rise': fl(rng.randint(1, 30) * gr), 'flat': fl(rng.choice([0, 0, 1, 7, 50, 200]) * gr if rng.random() < 0.3
                                                                 else rng.randint(1, 300) * gr),
                'fall': fl(rng.randint(1, 30) * gr), 'delay': fl(rng.choice([0, 0, 1, 2, 10, 33]) * gr), 'alt': False, 'set': {}}
    if kind == 'ext':
        n = rng.randint(2, 6)
        ks = sorted(rng.sample(range(1, 200), n))
        t0 = rng.choice([0, 0, 1, 3])
        times = [fl(t0 * gr)] + [fl((t0 + k) * gr) for k in ks]
        amps = [0.0] + [rng.choice([1e4, -2e4, 5e3]) for _ in range(n - 1)] + [0.0]
        return {'k': 'ext', 'ch': ch, 'times': times, 'amps': amps, 'alt': False, 'set': {}}
    if kind == 'extc':
        # extended trapezoid whose corners sit on CONSECUTIVE raster edges (0, 1, ..., n-1 rasters after its start)
        n = rng.randint(3, 12)
        t0 = rng.choice([0, 0, 1, 3])
        times = [fl((t0 + k) * gr) for k in range(n)]
        amps = [0.0] + [rng.choice([1e3, -2e3, 5e2]) for _ in range(n - 2)] + [0.0]
        return {'k': 'ext', 'ch': ch, 'times': times, 'amps': amps, 'alt': False, 'set': {}}
    if kind == 'extoff':
        # hand-built extended trapezoid whose first corner is not at 0 (as split/add produce them)
        n = rng.randint(2, 5)
        k0 = rng.choice([1, 2, 5])
        ks = sorted(rng.sample(range(k0 + 1, 150), n))
        tt = [fl(k0 * gr)] + [fl(k * gr) for k in ks]
        amps = [0.0] + [rng.choice([1e4, -2e4, 5e3]) for _ in range(n - 1)] + [0.0]
        return {'k': 'extoff', 'ch': ch, 'tt': tt, 'amps': amps, 'delay': fl(rng.choice([0, 1, 4]) * gr), 'alt': False, 'set': {}}
    if kind == 'arb':
        n = rng.randint(3, 60)
        w = [0.0] + [rng.choice([1e3, -2e3, 500.0, 0.0]) for _ in range(n - 2)] + [0.0]
        return {'k': 'arb', 'ch': ch, 'w': w, 'delay': fl(rng.choice([0, 0, 1, 5, 20]) * gr), 'alt': False, 'set': {}}
    if kind == 'adc':
        dead = F(s['adc_dead'])
        delay = (math.ceil(dead / rr - Fraction(1, 10 ** 6)) + rng.choice([0, 0, 1, 5, 40])) * rr
        return {'k': 'adc', 'n': rng.choice([1, 4, 16, 64, 100, 256]), 'dwell': fl(rng.randint(1, 200) * ar * rng.choice([1, 1, 10])),
                'delay': fl(delay), 'alt': False, 'set': {}}
    if kind == 'trig':
        return {'k': 'trig', 'out': rng.random() < 0.5, 'chn': rng.randint(0, 1), 'delay': fl(rng.randint(0, 50) * rr),
                'dur': fl(rng.randint(1, 2000) * rr), 'alt': False, 'set': {}}
    if kind == 'label':
        return {'k': 'label', 'name': rng.choice(['LIN', 'SLC', 'REP']), 'mode': rng.choice(['SET', 'INC']),
                'val': rng.randint(0, 5), 'alt': False, 'set': {}}
    if kind == 'delay':
        return {'k': 'delay', 'delay': fl(rng.randint(1, 500) * F(s['block'])), 'alt': False, 'set': {}}
    raise ValueError(kind)


def build_event(ev, opts, alt_opts):
    import pypulseq as pp
    o = alt_opts if ev.get('alt') else opts
    k = ev['k']
    with warnings.catch_warnings():
        warnings.simplefilter('ignore')
        if k == 'rfb':
            kw = {'use': ev['use']} if ev['use'] else {}
            e = pp.make_block_pulse(ev['flip'], duration=ev['dur'], delay=ev['delay'], system=o, **kw)
        elif k == 'rfs':
            kw = {'use': ev['use']} if ev['use'] else {}
            e = pp.make_sinc_pulse(ev['flip'], duration=ev['dur'], delay=ev['delay'], system=o, time_bw_product=2, **kw)
        elif k == 'trap':
            e = pp.make_trapezoid(ev['ch'], amplitude=ev['amp'], rise_time=ev['rise'], flat_time=ev['flat'],
                                  fall_time=ev['fall'], delay=ev['delay'], system=o)
        elif k == 'ext':
            e = pp.make_extended_trapezoid(ev['ch'], amplitudes=np.array(ev['amps']), times=np.array(ev['times']), system=o)
        elif k == 'extoff':
            tt = np.array(ev['tt'])
            e = SimpleNamespace(type='grad', channel=ev['ch'], waveform=np.array(ev['amps']), delay=ev['delay'], tt=tt,
                                shape_dur=tt[-1], first=0.0, last=0.0, area=0.0)
        elif k == 'arb':
            e = pp.make_arbitrary_grad(ev['ch'], np.array(ev['w']), first=0.0, last=0.0, delay=ev['delay'], system=o)
        elif k == 'adc':
            e = pp.make_adc(ev['n'], dwell=ev['dwell'], delay=ev['delay'], system=o)
        elif k == 'trig':
            if ev['out']:
                e = pp.make_digital_output_pulse(['osc0', 'osc1'][ev['chn']], delay=ev['delay'], duration=ev['dur'], system=o)
            else:
                e = pp.make_trigger(['physio1', 'physio2'][ev['chn']], delay=ev['delay'], duration=ev['dur'], system=o)
        elif k == 'label':
            e = pp.make_label(ev['name'], ev['mode'], ev['val'])
        elif k == 'delay':
            e = SimpleNamespace(type='delay', delay=ev['delay'])
        else:
            raise ValueError(k)
    for a, v in ev.get('set', {}).items():
        setattr(e, a, v)
    return e


def slot_of(ev):
    k = ev['k']
    if k in ('rfb', 'rfs'):
        return 'rf'
    if k in ('trap', 'ext', 'extoff', 'arb'):
        return 'g' + ev['ch']
    if k == 'adc':
        return 'adc'
    return None


def gen_block(rng, s, opts, pad=True, p_rf=0.4, p_g=0.4, p_adc=0.35, p_long=0.0, p_empty=0.0, p_solo=0.0):
    import pypulseq as pp
    evs = []
    if not pad and rng.random() < p_solo:
        # one gradient alone in its block: it defines the block duration
        return {'events': [gen_event(rng, s, rng.choice(['extc', 'extc', 'ext', 'extoff', 'arb', 'trap']), rng.choice('xyz'))]}
    if rng.random() < p_empty:
        p_rf = p_g = p_adc = 0.0            # pure delay (TR fill) block
    if rng.random() < p_rf:
        evs.append(gen_event(rng, s, rng.choice(['rfb', 'rfb', 'rfs'])))
    for ch in 'xyz':
        if rng.random() < p_g:
            evs.append(gen_event(rng, s, rng.choice(['trap', 'trap', 'trap', 'ext', 'extoff', 'arb', 'extc']), ch))
    if rng.random() < p_adc:
        evs.append(gen_event(rng, s, 'adc'))
    if rng.random() < 0.15:
        evs.append(gen_event(rng, s, 'trig'))
    if rng.random() < 0.15:
        evs.append(gen_event(rng, s, 'label'))
    if pad or not evs or all(e['k'] == 'label' for e in evs):
        built = [build_event(e, opts, opts) for e in evs]
        d = F(pp.calc_duration(*built)) if built else Fraction(0)
        br = F(s['block'])
        k = math.ceil(d / br - Fraction(1, 10 ** 6)) + rng.choice([0, 0, 0, 1, 13])
        if rng.random() < p_long:
            k += rng.randint(10 ** 5, 3 * 10 ** 6)      # seconds-long delay: 1e5 .. 3e6 block rasters
        evs.append({'k': 'delay', 'delay': fl(max(k, 1) * br), 'alt': False, 'set': {}})
    rng.shuffle(evs)
    return {'events': evs}


def build_sequence(case, use_cache=True):
    """case = {'sys':…, 'alt':… or None, 'blocks':[{'events':[…], 'stored': float or absent}], 'set_blocks': [(index, block)…]}"""
    import pypulseq as pp
    opts = make_opts(case['sys'])
    alt = make_opts(case['alt']) if case.get('alt') else opts
    seq = pp.Sequence(opts, use_block_cache=use_cache)
    with warnings.catch_warnings():
        warnings.simplefilter('ignore')
        for b in case['blocks']:
            seq.add_block(*[build_event(e, opts, alt) for e in b['events']])
        for idx, b in case.get('set_blocks', []):
            seq.set_block(idx, *[build_event(e, opts, alt) for e in b['events']])
    for i, b in enumerate(case['blocks']):
        if b.get('stored') is not None:
            seq.block_durations[i + 1] = b['stored']
            if use_cache:
                seq.block_cache.pop(i + 1, None)
    return seq


# ------------------------------------------------------------------------------------------------
# decoded blocks as exact rationals
def rf_use_code(rf):
    if not hasattr(rf, 'use') or rf.use in ('excitation', 'undefined'):
        return 0
    return 1 if rf.use == 'refocusing' else 2


def decode(seq, bid, F=F):
    import pypulseq as pp
    from pypulseq.calc_rf_center import calc_rf_center
    b = seq.get_block(bid)
    d = {'id': int(bid), 'stored': F(seq.block_durations[bid]), 'rf': None, 'gx': None, 'gy': None, 'gz': None, 'adc': None,
         'ext': []}
    if b.rf is not None:
        r = b.rf
        d['rf'] = {'kind': 'rf', 'delay': F(r.delay), 'shape_dur': F(r.shape_dur), 'ringdown_time': F(r.ringdown_time),
                   'dead_time': F(r.dead_time), 't_last': F(r.t[-1]), 'center': F(calc_rf_center(r)[0]), 'use': rf_use_code(r)}
        # how the time axis is stored in the library (input of the model's decode_rf_*)
        try:
            from pypulseq.decompress_shape import decompress_shape
            tid = int(seq.rf_library.data[int(seq.block_events[bid][1])][3])
            if tid == 0:
                d['rf']['time_shape'] = ('regular', len(r.signal))
            else:
                sd = seq.shape_library.data[tid]
                tl = decompress_shape(SimpleNamespace(num_samples=sd[0], data=np.asarray(sd[1:], dtype=float)))[-1]
                d['rf']['time_shape'] = ('times', F(tl))
        except Exception:  # noqa: BLE001
            d['rf']['time_shape'] = None
    gr = seq.grad_raster_time
    for ch in ('gx', 'gy', 'gz'):
        g = getattr(b, ch)
        if g is None:
            continue
        if g.type == 'trap':
            d[ch] = {'kind': 'trap', 'delay': F(g.delay), 'rise_time': F(g.rise_time), 'flat_time': F(g.flat_time),
                     'fall_time': F(g.fall_time)}
        else:
            tt_rast = g.tt / gr + 0.5
            reg = bool(np.all(np.abs(tt_rast - np.arange(1, len(tt_rast) + 1)) < float(EPS)))
            d[ch] = {'kind': 'grad', 'delay': F(g.delay), 'shape_dur': F(g.shape_dur), 't_last': F(g.tt[-1]),
                     't_first': F(g.tt[0]), 'regular': reg, 'npts': len(g.tt)}
    if b.adc is not None:
        a = b.adc
        d['adc'] = {'kind': 'adc', 'delay': F(a.delay), 'dwell': F(a.dwell), 'num_samples': int(a.num_samples),
                    'dead_time': F(a.dead_time)}
    if getattr(b, 'label', None):
        for _ in b.label.values():
            d['ext'].append({'kind': 'label'})
    if getattr(b, 'trigger', None):
        for t in b.trigger.values():
            d['ext'].append({'kind': 'trig', 'delay': F(t.delay), 'duration': F(t.duration)})
    return d


def sys_fr(seq, F=F):
    o = seq.system
    return {'block': F(o.block_duration_raster), 'rf': F(o.rf_raster_time), 'grad': F(o.grad_raster_time),
            'adc': F(o.adc_raster_time), 'adc_dead': F(o.adc_dead_time), 'rf_dead': F(o.rf_dead_time),
            'rf_ring': F(o.rf_ringdown_time)}


KIND_NUM = {'rf': 0, 'grad': 1, 'trap': 2, 'adc': 3, 'delay': 4, 'trig': 5, 'label': 6}


def ev_tok(e):
    g = lambda k: qtok(e.get(k, Fraction(0)))   # noqa: E731
    return ' '.join([str(KIND_NUM[e['kind']]), g('delay'), g('shape_dur'), g('ringdown_time'), g('dead_time'), g('rise_time'),
                     g('flat_time'), g('fall_time'), g('duration'), g('dwell'), ztok(e.get('num_samples', 0)), g('t_last'),
                     g('t_first'), g('center'), ztok(e.get('use', 0)), '1' if e.get('regular') else '0'])


def opt_tok(e):
    return '0' if e is None else '1 ' + ev_tok(e)


def block_tok(d):
    return ' '.join([ztok(d['id']), qtok(d['stored'])] + [opt_tok(d[s]) for s in ('rf', 'gx', 'gy', 'gz', 'adc')] +
                    [str(len(d['ext']))] + [ev_tok(e) for e in d['ext']])


def sys_tok(s):
    return ' '.join(qtok(s[k]) for k in ('block', 'rf', 'grad', 'adc', 'adc_dead', 'rf_dead', 'rf_ring'))


def blocks_tok(ds):
    return ' '.join([str(len(ds))] + [block_tok(d) for d in ds])


# ------------------------------------------------------------------------------------------------
# oracle (property text of C10, exact Fractions, written without reference to the model)
def ev_end(e):
    k = e['kind']
    if k == 'rf':
        return e['delay'] + e['shape_dur'] + e['ringdown_time']
    if k == 'grad':
        return e['delay'] + e['shape_dur']
    if k == 'trap':
        return e['delay'] + e['rise_time'] + e['flat_time'] + e['fall_time']
    if k == 'adc':
        return e['delay'] + e['num_samples'] * e['dwell'] + e['dead_time']
    if k == 'trig':
        return e['delay'] + e['duration']
    return None


def content_end(d):
    ends = [ev_end(e) for e in [d['rf'], d['gx'], d['gy'], d['gz'], d['adc']] + d['ext'] if e is not None]
    ends = [x for x in ends if x is not None]
    return max(ends) if ends else Fraction(0)


class Near(Exception):
    pass


def off_raster(t, raster, near):
    c = t / raster
    dev = abs(c - round(c))
    if abs(dev - TOL) < Fraction(1, 10 ** 8):
        near.append(('raster', float(dev)))
    return not dev < TOL


def beyond(x, near):
    """x > eps, with the guard band recorded"""
    if abs(x - EPS) < Fraction(1, 10 ** 12):
        near.append(('eps', float(x)))
    return x > EPS


def oracle_report(s, ds, raster_on_stored=False):
    """returns (list of (block id, slot, field, kind), near-threshold notes).  s: system as Fractions; ds: decoded blocks.
    raster_on_stored: which reading of "block duration on the block raster" the source under test implements (the
    duration of the decoded block, or the stored duration in the repaired source)"""
    rep, near = [], []
    for d in ds:
        bid = d['id']
        content = content_end(d)
        stored = d['stored']
        full = max(stored, content)                       # "block duration": the stored delay or the latest event end
        if off_raster(stored if raster_on_stored else full, s['block'], near):
            rep.append((bid, 'block', 'duration', 'RASTER'))
        mism = beyond(content - stored, near)             # the stored duration does not cover the content
        if mism:
            rep.append((bid, 'block', 'duration', 'BLOCK_DURATION_MISMATCH'))
        avail = stored if mism else full
        for slot in ('rf', 'gx', 'gy', 'gz', 'adc'):
            e = d[slot]
            if e is None:
                continue
            ras = s['rf'] if e['kind'] in ('rf', 'adc') else s['grad']
            if beyond(-e['delay'], near):
                rep.append((bid, slot, 'delay', 'NEGATIVE_DELAY'))
            if off_raster(e['delay'], ras, near):
                rep.append((bid, slot, 'delay', 'RASTER'))
            if e['kind'] == 'adc' and off_raster(e['dwell'], s['adc'], near):
                rep.append((bid, slot, 'dwell', 'RASTER'))
            if e['kind'] == 'trap':
                for f in ('rise_time', 'flat_time', 'fall_time'):
                    if off_raster(e[f], s['grad'], near):
                        rep.append((bid, slot, f, 'RASTER'))
        r = d['rf']
        if r is not None:
            if beyond(r['dead_time'] - r['delay'], near):
                rep.append((bid, 'rf', 'delay', 'RF_DEAD_TIME'))
            # RF end = time of the last RF sample (t[-1]); the shape_dur reading is checked one-sidedly by the caller
            if beyond(r['delay'] + r['t_last'] + r['ringdown_time'] - avail, near):
                rep.append((bid, 'rf', 'duration', 'RF_RINGDOWN_TIME'))
        a = d['adc']
        if a is not None:
            if beyond(s['adc_dead'] - a['delay'], near):
                rep.append((bid, 'adc', 'delay', 'ADC_DEAD_TIME'))
            if beyond(a['delay'] + a['num_samples'] * a['dwell'] + s['adc_dead'] - avail, near):
                rep.append((bid, 'adc', 'duration', 'POST_ADC_DEAD_TIME'))
    return rep, near


def norm_report(report):
    """implementation's error_report -> list of (block, event, field, kind); tolerant of namespaces, dicts and strings"""
    out = []
    for e in report:
        if isinstance(e, str):
            import re
            m = re.search(r'[Bb]lock[:\s]*(\d+).*?(\w+)\.(\w+).*?([A-Z_]{5,})', e)
            if not m:
                raise ValueError('unparsable report entry %r' % e)
            out.append((int(m.group(1)), m.group(2), m.group(3), m.group(4)))
            continue
        g = (lambda k: e[k]) if isinstance(e, dict) else (lambda k: getattr(e, k))
        out.append((int(g('block')), str(g('event')), str(g('field')), str(g('error_type'))))
    return out


def model_report(tokens):
    """'n bid slot field kind ...' -> list of tuples in the implementation's vocabulary"""
    from common import Toks
    t = Toks(tokens)
    n = t.int()
    out = []
    for _ in range(n):
        bid = t.z()
        out.append((bid, SLOTS[t.int()], ATTRS[t.int()], KINDS[t.int()]))
    return out


# ------------------------------------------------------------------------------------------------
# files of the older format revisions (1.2.x / 1.3.x): blocks reference a [DELAYS] entry, no duration column
def gen_legacy(rng):
    fam = rng.choice(['siemens', 'siemens', 'b10g5'])
    br, rr, gr, ar = (Fraction(x) for x in FAMILIES[fam])
    s = {'family': fam, 'block': fl(br), 'rf': fl(rr), 'grad': fl(gr), 'adc': fl(ar), 'rf_dead': rng.choice([0.0, 1e-4]),
         'rf_ring': rng.choice([0.0, 2e-5, 3e-5]), 'adc_dead': rng.choice([0.0, 1e-5, 2e-5])}
    blocks = []
    for _ in range(rng.randint(2, 9)):
        b = {'delay_us': rng.choice([0, 0, 10 * rng.randint(1, 40), 10 * rng.randint(20, 400)]), 'rf': None, 'gx': None, 'gy': None,
             'gz': None, 'adc': None}
        if rng.random() < 0.35:
            b['rf'] = {'dur_us': 10 * rng.randint(2, 100), 'delay_us': int(s['rf_dead'] * 1e6 + 0.5) + 10 * rng.choice([0, 0, 1, 5])}
        for ch in ('gx', 'gy', 'gz'):
            if rng.random() < 0.45:
                b[ch] = {'amp': rng.choice([1000, -2500, 12345]), 'rise': 10 * rng.randint(1, 30), 'flat': 10 * rng.randint(1, 200),
                         'fall': 10 * rng.randint(1, 30), 'delay': 10 * rng.choice([0, 0, 1, 5, 30])}
        if rng.random() < 0.4:
            b['adc'] = {'n': rng.choice([10, 100, 250]), 'dwell_ns': 1000 * rng.randint(1, 20),
                        'delay_us': int(s['adc_dead'] * 1e6 + 0.5) + 10 * rng.choice([0, 1, 5, 20])}
        if not any(b[k] for k in ('rf', 'gx', 'gy', 'gz', 'adc')) and b['delay_us'] == 0:
            b['delay_us'] = 10 * rng.randint(1, 100)
        blocks.append(b)
    return {'legacy': True, 'version': rng.choice([[1, 3, 1], [1, 3, 1], [1, 3, 2]]), 'sys': s, 'alt': None, 'lblocks': blocks,
            'blocks': [], 'set_blocks': [], 'padded': True}


def legacy_text(case):
    """the .seq text of a legacy case, and the latest event end of every block (exact, from the file's own numbers)"""
    from pypulseq.compress_shape import compress_shape
    s = case['sys']
    major, minor, rev = case['version']
    libs = {'rf': {}, 'trap': {}, 'adc': {}, 'delay': {}, 'shape': {}}

    def ident(lib, key):
        return libs[lib].setdefault(key, len(libs[lib]) + 1)

    lines, ends = [], {}
    us = Fraction(1, 10 ** 6)
    for i, b in enumerate(case['lblocks']):
        bid = i + 1
        e = [b['delay_us'] * us]
        d_id = ident('delay', b['delay_us']) if b['delay_us'] > 0 else 0
        rf_id = 0
        if b['rf']:
            n = int(Fraction(b['rf']['dur_us'], 10 ** 6) / F(s['rf']) + Fraction(1, 2))
            mag = ident('shape', ('ones', n))
            ph = ident('shape', ('zeros', n))
            rf_id = ident('rf', (mag, ph, b['rf']['delay_us']))
            e.append((b['rf']['delay_us'] + b['rf']['dur_us']) * us + F(s['rf_ring']))
        g_ids = []
        for ch in ('gx', 'gy', 'gz'):
            g = b[ch]
            if g:
                g_ids.append(ident('trap', (g['amp'], g['rise'], g['flat'], g['fall'], g['delay'])))
                e.append((g['delay'] + g['rise'] + g['flat'] + g['fall']) * us)
            else:
                g_ids.append(0)
        a_id = 0
        if b['adc']:
            a = b['adc']
            a_id = ident('adc', (a['n'], a['dwell_ns'], a['delay_us']))
            e.append(a['delay_us'] * us + a['n'] * a['dwell_ns'] * Fraction(1, 10 ** 9) + F(s['adc_dead']))
        ends[bid] = max(e)
        row = [bid, d_id, rf_id] + g_ids + [a_id] + ([0] if (major, minor) >= (1, 3) else [])
        lines.append(' '.join(str(v) for v in row))
    out = ['# Pulseq sequence file', '# written by the verification harness (legacy format)', '', '[VERSION]', 'major %d' % major,
           'minor %d' % minor, 'revision %d' % rev, '', '[DEFINITIONS]', 'Name legacy', '', '[BLOCKS]'] + lines + ['']
    if libs['rf']:
        out += ['[RF]'] + ['%d %g %d %d %d 0 0' % (i, 250.0, k[0], k[1], k[2]) for k, i in libs['rf'].items()] + ['']
    if libs['trap']:
        out += ['[TRAP]'] + ['%d %g %d %d %d %d' % ((i,) + k) for k, i in libs['trap'].items()] + ['']
    if libs['adc']:
        out += ['[ADC]'] + ['%d %d %d %d 0 0' % ((i,) + k) for k, i in libs['adc'].items()] + ['']
    if libs['delay']:
        out += ['[DELAYS]'] + ['%d %d' % (i, k) for k, i in libs['delay'].items()] + ['']
    if libs['shape']:
        out += ['[SHAPES]', '']
        for (kind, n), i in libs['shape'].items():
            c = compress_shape(np.ones(n) if kind == 'ones' else np.zeros(n))
            out += ['shape_id %d' % i, 'num_samples %d' % int(c.num_samples)] + ['%.9g' % v for v in c.data] + ['']
    return '\n'.join(out) + '\n', ends
