"""filegen.py — generator for the file round-trip properties C01/C02.

Extends seqgen.Gen with what C01 quantifies over and seqgen does not produce:
  * ARBITRARY (raster-sampled) gradients connected across blocks with non-zero edges of both signs,
    mixed with extended trapezoids on the same chain, several channels at once;
  * RF / ADC / labels / triggers inside such connected blocks;
  * numeric and string user definitions;
  * independent writer and reader systems (gradient raster 4/5/10/20 us, RF raster 1/2 us, block raster,
    dead times, limits).
Never generated (by construction, see ASSUMPTIONS of C02): two events that differ only in fields the format
does not store (KF-15: same arbitrary waveform with different first/last; ADCs with different dead times),
RF delays >= 1 s (KF-5).
"""
import copy
import math

import numpy as np

import seqgen
from seqgen import T0, k


def rand_system(rng, default_prob=0.2):
    import pypulseq as pp
    if rng.random() < default_prob:
        return pp.Opts()
    return pp.Opts(
        max_grad=rng.choice([28, 40, 80]), grad_unit='mT/m',
        max_slew=rng.choice([100, 150, 200]), slew_unit='T/m/s',
        grad_raster_time=rng.choice([10e-6, 20e-6, 5e-6, 4e-6]),
        rf_raster_time=rng.choice([1e-6, 2e-6]),
        adc_raster_time=1e-7,
        block_duration_raster=rng.choice([10e-6, 20e-6, 5e-6, 4e-6]),
        rf_dead_time=rng.choice([0, 100e-6, 20e-6]),
        rf_ringdown_time=rng.choice([0, 20e-6, 40e-6]),
        adc_dead_time=rng.choice([0, 10e-6, 20e-6]),
        gamma=rng.choice([42.576e6, 42.576e6, 10.7084e6]),
    )


class FGen(seqgen.Gen):
    def amp(self):
        """as seqgen.Gen.amp, plus near-twins of an earlier amplitude around the 6-/7-digit rounding threshold
        (duplicate removal must merge exactly what the printer cannot distinguish)"""
        r = self.rng
        if not getattr(self, '_twin_ok', False):
            # only trapezoids get near-twins: for extended trapezoids / arbitrary gradients a twin amplitude would also
            # be a twin pair that differs only in the unstored first/last values (KF-15, excluded by construction)
            return super().amp()
        prev = getattr(self, '_amps', [])
        if prev and r.random() < 0.35:
            a = r.choice(prev) * (1 + r.choice([1e-7, 3e-7, -2e-7, 4e-6, 0.0]))
        else:
            a = super().amp()
        if abs(a) > self.sys.max_grad:
            a = super().amp()
        self._amps = (prev + [a])[-6:]
        return a

    def trap(self, ch):
        self._twin_ok = True
        try:
            return super().trap(ch)
        finally:
            self._twin_ok = False

    def conn_duration(self, pairs):
        """block length (multiple of T0) long enough to ramp every (first, last) pair at <= 45 % of max slew"""
        need = max([abs(l - f) / (0.45 * self.sys.max_slew) for f, l in pairs] + [4 * T0])
        n = max(6, math.ceil(need / T0 + 1e-9)) + self.rng.randint(0, 12)
        return n * T0

    def ext_conn(self, ch, first, last, D):
        """extended trapezoid from `first` to `last` spanning exactly [0, D]"""
        import pypulseq as pp
        r = self.rng
        nT = int(round(D / T0))
        ninner = r.choice([0, 1, 2, 2])
        inner = sorted(set(r.randint(1, nT - 1) for _ in range(ninner)))
        times = [0] + inner + [nT]
        amps = [first]
        for j, t in enumerate(times[1:-1], start=1):
            lin = first + (last - first) * t / nT
            dtmin = min(t - times[j - 1], times[j + 1] - t) * T0
            room = max(0.0, self.sys.max_grad - abs(lin))
            jit = r.uniform(-1, 1) * min(0.2 * self.sys.max_slew * dtmin, 0.9 * room)
            amps.append(lin + jit)
        amps.append(last)
        if ninner == 2 and len(amps) == 4 and r.random() < 0.4:
            amps[2] = amps[1]                     # a plateau
        tt = np.array([t * T0 for t in times], dtype=float)
        return pp.make_extended_trapezoid(ch, amplitudes=np.array(amps, dtype=float), times=tt, system=self.sys)

    def arb_conn(self, ch, first, last, D):
        """raster-sampled gradient over [0, D] whose edges are first/last (stored as given; the extrapolated
        edge of the waveform is within a fraction of a slew step of them)"""
        import pypulseq as pp
        r = self.rng
        gr = self.sys.grad_raster_time
        n = int(round(D / gr))
        t = (np.arange(n) + 0.5) / n
        base = first + (last - first) * t
        room = max(0.0, self.sys.max_grad - max(abs(first), abs(last)))
        bump = r.choice([-1, 1]) * r.uniform(0.1, 1.0) * min(0.9 * room, 0.3 * self.sys.max_slew * D / math.pi)
        w = base + bump * np.sin(math.pi * t) ** 2
        if r.random() < 0.5:
            # non-smooth component: a bounded random walk, zero at both ends
            step = 0.08 * self.sys.max_slew * gr
            walk = np.cumsum(np.array([r.uniform(-1, 1) for _ in range(n)])) * step
            walk -= np.linspace(walk[0], walk[-1], n)
            lim = 0.05 * self.sys.max_grad
            walk = np.clip(walk, -lim, lim) * np.sin(math.pi * t)
            w = np.clip(w + walk, -self.sys.max_grad, self.sys.max_grad)
        return pp.make_arbitrary_grad(ch, np.asarray(w, dtype=float), first=float(first), last=float(last), system=self.sys)

    def conn(self, ch, first, last, D):
        if self.rng.random() < 0.6:
            return self.arb_conn(ch, first, last, D)
        return self.ext_conn(ch, first, last, D)

    def block(self, final=False):
        import pypulseq as pp
        r = self.rng
        carry = [ch for ch in 'xyz' if self.last[ch] != 0]
        start = (not final) and r.random() < 0.3
        if not carry and not start:
            return super().block(final=final)
        pairs = {}
        for ch in 'xyz':
            f = self.last[ch]
            if f != 0 or r.random() < 0.55:
                l = 0.0 if (final or r.random() < 0.35) else self.amp()
                if f == 0 and l == 0:
                    if final:
                        continue
                    l = self.amp()
                pairs[ch] = (f, l)
        if not pairs:
            return super().block(final=final)
        # sometimes the channels that start a chain share ONE gradient event (same library id on two channels)
        fresh = [ch for ch, (f, l) in pairs.items() if f == 0]
        share = len(fresh) >= 2 and r.random() < 0.4
        if share:
            for ch in fresh[1:]:
                pairs[ch] = pairs[fresh[0]]
        D = self.conn_duration(pairs.values())
        evs = []
        shared = None
        for ch, (f, l) in pairs.items():
            if share and ch in fresh and shared is not None:
                g = copy.deepcopy(shared)
                g.channel = ch
            else:
                g = self.conn(ch, f, l, D)
                if share and ch in fresh:
                    shared = g
            evs.append(g)
        # other events that fit into D
        extra = []
        if self.use['rf'] and r.random() < 0.25:
            cand = [e for e in self.rf() if e.type == 'rf']
            extra += cand
        elif self.use['adc'] and r.random() < 0.5:
            extra.append(self.adc())
        for ch in 'xyz':
            if ch not in pairs and r.random() < 0.3:
                extra.append(self.trap(ch))
        for e in extra:
            if self._end(e) <= D + 1e-12:
                evs.append(e)
        if self.use['labels']:
            for _ in range(r.choice([0, 0, 1, 2])):
                evs.append(self.label())
            for _ in range(r.choice([0, 0, 0, 1, 2])):
                t = self.trig()
                if self._end(t) <= D + 1e-12:
                    evs.append(t)
        for ch in 'xyz':
            self.last[ch] = pairs[ch][1] if ch in pairs else 0.0
        r.shuffle(evs)
        return evs


def random_sequence(rng, system=None, n_blocks=None, use_block_cache=True, **kw):
    """returns (seq, number of blocks stored, writer system)"""
    import pypulseq as pp
    system = system or rand_system(rng)
    seq = pp.Sequence(system, use_block_cache=use_block_cache)
    g = FGen(rng, system, **kw)
    n = n_blocks or rng.randint(1, 12)
    stored = 0
    tries = 0
    while stored < n and tries < 4 * n:
        tries += 1
        final = stored == n - 1
        saved = dict(g.last)
        try:
            evs = g.block(final=final)
            seq.add_block(*evs)
            stored += 1
        except Exception:   # a constructor or the continuity check refused: draw again
            g.last = saved
            continue
    if any(v != 0 for v in g.last.values()):
        try:
            pairs = {ch: (g.last[ch], 0.0) for ch in 'xyz' if g.last[ch] != 0}
            D = g.conn_duration(pairs.values())
            seq.add_block(*[g.conn(ch, f, l, D) for ch, (f, l) in pairs.items()])
            stored += 1
        except Exception:
            pass
    # user definitions: numbers, vectors, strings
    if rng.random() < 0.6:
        seq.set_definition('FOV', [rng.choice([0.25, 0.256, 0.2200001]), 0.25, rng.choice([0.003, 0.0030000004])])
    if rng.random() < 0.5:
        seq.set_definition('Name', rng.choice(['gre', 'epi_3d test', 'x']))
    if rng.random() < 0.3:
        seq.set_definition('MaxAdcSegmentLength', rng.choice([1000, 8192]))
    if rng.random() < 0.3:
        seq.set_definition('kappa', rng.choice([1.23456789012, -0.000123456789123, 1e-9, 123456789.5]))
    return seq, stored, system


def shared_gradient_corpus():
    """fixed case: one extended trapezoid shared by two channels of block 1, continued by two DIFFERENT gradients in
    block 2 (the reader's first/last scan must carry the shared event's last value on both channels)"""
    import pypulseq as pp
    s = pp.Opts()
    seq = pp.Sequence(s)
    up = lambda ch: pp.make_extended_trapezoid(ch, amplitudes=np.array([0, 1e5]), times=np.array([0, 5e-4]), system=s)
    dn = lambda ch: pp.make_extended_trapezoid(ch, amplitudes=np.array([1e5, 0]), times=np.array([0, 5e-4]), system=s)
    dn2 = lambda ch: pp.make_extended_trapezoid(ch, amplitudes=np.array([1e5, 2e4, 0]), times=np.array([0, 3e-4, 5e-4]), system=s)
    seq.add_block(up('x'), up('y'))
    seq.add_block(dn('x'), dn2('y'))
    return seq, 2, s
