"""filegen.py — generator for the file round-trip properties C01/C02.

Extends seqgen.Gen with what C01 quantifies over and seqgen does not produce:
  * ARBITRARY (raster-sampled) gradients connected across blocks with non-zero edges of both signs,
    mixed with extended trapezoids on the same chain, several channels at once;
  * RF / ADC / labels / triggers inside such connected blocks;
  * numeric and string user definitions;
  * independent writer and reader systems (gradient raster 4/5/10/20 us, RF raster 1/2 us, block raster,
    dead times, limits).
Never generated (by construction, see ASSUMPTIONS of C02): two events that differ only in fields the format
does not store (KF-15: same arbitrary waveform with different first/last; ADCs with different dead times),
RF delays >= 1 s (KF-5).
"""
import copy
import math

import numpy as np

import seqgen
from seqgen import T0, k


def rand_system(rng, default_prob=0.2):
    import pypulseq as pp
    if rng.random() < default_prob:
        return pp.Opts()
    return pp.Opts(
        max_grad=rng.choice([28, 40, 80]), grad_unit='mT/m',
        max_slew=rng.choice([100, 150, 200]), slew_unit='T/m/s',
        grad_raster_time=rng.choice([10e-6, 20e-6, 5e-6, 4e-6, 6.4e-6, 2.5e-6]),
        rf_raster_time=rng.choice([1e-6, 2e-6, 1e-6, 5e-7]),
        adc_raster_time=rng.choice([1e-7, 1e-7, 5e-8, 2.5e-8]),
        block_duration_raster=rng.choice([10e-6, 20e-6, 5e-6, 4e-6, 5e-7]),
        rf_dead_time=rng.choice([0, 100e-6, 20e-6]),
        rf_ringdown_time=rng.choice([0, 20e-6, 40e-6]),
        adc_dead_time=rng.choice([0, 10e-6, 20e-6]),
        gamma=rng.choice([42.576e6, 42.576e6, 10.7084e6]),
    )


def dense(rng, raster, tmax=None, nmin=0):
    """a time drawn from EVERY multiple of `raster` in [nmin*raster, tmax] (not a few favourites), produced in the ways user
    code produces such numbers: the product n*raster, the double nearest to the decimal literal, a sum of two parts.
    About 1.5 % of these, times 1e6, land just below an integer in binary64 (truncation vs rounding shows)."""
    if tmax is None:
        tmax = rng.choice([0.2e-3, 2e-3, 10e-3])
    nmax = max(nmin, int(round(tmax / raster)))
    n = rng.randint(nmin, nmax)
    u = rng.random()
    if u < 0.4:
        return n * raster
    if u < 0.8:
        return float('%.9g' % (n * raster))
    a = rng.randint(0, n)
    return a * raster + (n - a) * raster


class FGen(seqgen.Gen):
    def __init__(self, *a, twins=False, **kw):
        super().__init__(*a, **kw)
        # twins: re-used connected events may be rescaled by 1 + 2e-8 -> same [GRADIENTS] line, different first/last
        # (legitimate for C01; excluded for C02's fixed point: KF-15)
        self.twins = twins
        self.gr = self.sys.grad_raster_time
        self.rfr = self.sys.rf_raster_time
        self.br = self.sys.block_duration_raster
        # length unit of connected blocks: a common multiple of the gradient raster, the block raster and 20 us
        self.U = math.lcm(int(round(self.gr * 1e9)), int(round(self.br * 1e9)), 20000) * 1e-9
        # chain edge values recur (so that earlier connected events can be re-used where the chain is at the same value)
        self.palette = [seqgen.Gen.amp(self) for _ in range(self.rng.choice([2, 3, 3]))]
        self.pool = []          # connected gradient events created so far (re-usable: same data -> same library id)

    # ---- amplitudes ----
    def amp(self):
        """as seqgen.Gen.amp, plus near-twins of an earlier amplitude around the 6-/7-digit rounding threshold
        (duplicate removal must merge exactly what the printer cannot distinguish)"""
        r = self.rng
        if not getattr(self, '_twin_ok', False):
            # only trapezoids get near-twins: for extended trapezoids / arbitrary gradients a twin amplitude would also
            # be a twin pair that differs only in the unstored first/last values (KF-15, excluded by construction)
            return super().amp()
        prev = getattr(self, '_amps', [])
        if prev and r.random() < 0.35:
            a = r.choice(prev) * (1 + r.choice([1e-7, 3e-7, -2e-7, 4e-6, 0.0]))
        else:
            a = super().amp()
        if abs(a) > self.sys.max_grad:
            a = super().amp()
        self._amps = (prev + [a])[-6:]
        return a

    def edge(self):
        return self.rng.choice(self.palette)

    # ---- events with dense timing ----
    def ramp_n(self, a0, a1):
        need = abs(a1 - a0) / self.sys.max_slew
        return max(1, math.ceil(need / self.gr + 1e-9))

    def twin_value(self, v):
        """a value that differs from v below the print precision of a %g column (6 significant digits), or just above
        it: whole numbers with 7+ digits get a neighbouring whole number, others a relative change of 1e-7 .. 4e-6"""
        r = self.rng
        if v != 0 and float(v).is_integer() and abs(v) >= 1e6:
            return float(v + r.choice([1, 2, -1, 3, 10]))
        if v == 0:
            return 0.0
        return v * (1 + r.choice([1e-7, 3e-7, -2e-7, 4e-6, 0.0]))

    def trap(self, ch):
        import pypulseq as pp
        r = self.rng
        prev = getattr(self, '_traps', [])
        if prev and r.random() < 0.3:
            # the twin of an earlier trapezoid: same timing, amplitude changed below / around the print precision
            a0, rise, flat, fall, delay = r.choice(prev)
            a = self.twin_value(a0)
            if abs(a) > self.sys.max_grad:
                a = a0
            self.n_value_twins = getattr(self, 'n_value_twins', 0) + 1
        else:
            a = seqgen.Gen.amp(self)
            if r.random() < 0.35:
                a = float(round(a))                       # whole numbers (7 digits from 1e6 Hz/m on)
            n0 = self.ramp_n(0, a)
            rise = dense(r, self.gr, tmax=(n0 + r.choice([0, 3, 40])) * self.gr, nmin=n0)
            fall = rise if r.random() < 0.5 else dense(r, self.gr, tmax=(n0 + r.choice([0, 3, 40])) * self.gr, nmin=n0)
            flat = dense(r, self.gr)
            delay = dense(r, self.gr) if r.random() < 0.6 else 0
        self._traps = (prev + [(a, rise, flat, fall, delay)])[-6:]
        return pp.make_trapezoid(ch, amplitude=a, rise_time=rise, flat_time=flat, fall_time=fall, delay=delay, system=self.sys)

    def ext0(self, ch):
        """extended trapezoid 0 -> ... -> 0 with a delay; corner times on every multiple of the gradient raster"""
        import pypulseq as pp
        r = self.rng
        a = self.amp()
        n0 = self.ramp_n(0, a)
        delay = dense(r, self.gr) if r.random() < 0.7 else 0.0
        n1 = n0 + r.randint(0, 20)
        nh = r.randint(0, 200)
        n2 = n0 + r.randint(0, 20)
        ns = [n1] + ([n1 + nh] if nh else []) + [n1 + nh + n2]
        times = np.array([delay] + [delay + n * self.gr for n in ns], dtype=float)
        amps = np.array([0.0] + [a] * (len(ns) - 1) + [0.0], dtype=float)
        return pp.make_extended_trapezoid(ch, amplitudes=amps, times=times, system=self.sys)

    def arb0(self, ch):
        g = self.arb(ch, 0.0, 0.0)
        if g is not None and self.rng.random() < 0.7:
            g.delay = dense(self.rng, self.gr)
        return g

    def adc(self):
        import pypulseq as pp
        r = self.rng
        prev = getattr(self, '_adcs', [])
        if prev and r.random() < 0.3:
            a = copy.deepcopy(r.choice(prev))              # twin: one %g column changed around the print precision
            if r.random() < 0.5:
                a.freq_offset = self.twin_value(a.freq_offset)
            else:
                a.phase_offset = self.twin_value(a.phase_offset)
            self.n_value_twins = getattr(self, 'n_value_twins', 0) + 1
            return a
        ar = self.sys.adc_raster_time
        # dwell on EVERY multiple of the ADC raster (odd multiples of 50 / 25 ns rasters included)
        dwell = r.randint(int(round(1e-6 / ar)), int(round(20e-6 / ar))) * ar if r.random() < 0.75 else r.choice([1e-6, 2e-6, 5e-6, 1e-5, 2.5e-6])
        n = r.randint(4, 256)
        delay = self.sys.adc_dead_time + dense(r, self.rfr)
        a = pp.make_adc(n, dwell=dwell, delay=delay, freq_offset=r.choice([0, 100.5, -31250.25, 1500001.0, -2500003.0]),
                        phase_offset=r.choice([0, 0.5, math.pi]), system=self.sys)
        self._adcs = (prev + [copy.deepcopy(a)])[-4:]
        return a

    def rf(self):
        r = self.rng
        prev = getattr(self, '_rfs', [])
        if prev and r.random() < 0.3:
            e = copy.deepcopy(r.choice(prev))
            u = r.random()
            if u < 0.35:
                e.freq_offset = self.twin_value(e.freq_offset)
            elif u < 0.65:
                e.phase_offset = self.twin_value(e.phase_offset)
            else:
                # the same pulse under another `use` (the 1.4 format does not store it: one [RF] line either way)
                e.use = r.choice([x for x in ('excitation', 'refocusing', 'inversion', 'saturation', 'preparation')
                                  if x != getattr(e, 'use', None)])
                self.n_use_pairs = getattr(self, 'n_use_pairs', 0) + 1
            self.n_value_twins = getattr(self, 'n_value_twins', 0) + 1
            return [e]
        evs = super().rf()
        if len(evs) == 1:      # without slice gradient: any delay on the RF raster (below 1 s: KF-5)
            evs[0].delay = self.sys.rf_dead_time + dense(r, self.rfr)
            if r.random() < 0.3:
                evs[0].freq_offset = r.choice([1500001.0, 1500002.0, -2500003.0, 1234567.0])
            self._rfs = (prev + [copy.deepcopy(evs[0])])[-4:]
        return evs

    def trig(self):
        import pypulseq as pp
        r = self.rng
        dl = dense(r, self.gr)
        du = dense(r, self.gr, nmin=1)
        if r.random() < 0.5:
            return pp.make_trigger(r.choice(['physio1', 'physio2']), delay=dl, duration=du, system=self.sys)
        return pp.make_digital_output_pulse(r.choice(['osc0', 'osc1', 'ext1']), delay=dl, duration=du, system=self.sys)

    def pad(self, evs, extra=True):
        """a delay event that puts the block end on the block-duration raster (any multiple, not only 20 us steps)"""
        import pypulseq as pp
        end = max([self._end(e) for e in evs] + [0.0])
        n = math.ceil(end / self.br - 1e-7)
        if extra and self.rng.random() < 0.5:
            n += self.rng.randint(0, 300)
        n = max(n, 1)
        return pp.make_delay(n * self.br if self.rng.random() < 0.5 else float('%.9g' % (n * self.br)))

    # ---- connected gradients ----
    def conn_duration(self, pairs, at_least=0.0):
        """block length (multiple of T0) long enough to ramp every (first, last) pair at <= 45 % of max slew"""
        U = self.U
        need = max([abs(l - f) / (0.45 * self.sys.max_slew) for f, l in pairs] + [80e-6, at_least])
        n = max(math.ceil(120e-6 / U), math.ceil(need / U - 1e-9)) + self.rng.randint(0, max(1, int(round(240e-6 / U))))
        return n * U

    def feasible(self, f, l, D):
        return abs(l - f) / D <= 0.45 * self.sys.max_slew

    def ext_conn(self, ch, first, last, D):
        """extended trapezoid from `first` to `last` spanning exactly [0, D]; corners on any gradient-raster multiple"""
        import pypulseq as pp
        r = self.rng
        nT = int(round(D / self.gr))
        ninner = r.choice([0, 1, 2, 2])
        inner = sorted(set(r.randint(1, nT - 1) for _ in range(ninner)))
        times = [0] + inner + [nT]
        amps = [first]
        for j, t in enumerate(times[1:-1], start=1):
            lin = first + (last - first) * t / nT
            dtmin = min(t - times[j - 1], times[j + 1] - t) * self.gr
            room = max(0.0, self.sys.max_grad - abs(lin))
            jit = r.uniform(-1, 1) * min(0.2 * self.sys.max_slew * dtmin, 0.9 * room)
            amps.append(lin + jit)
        amps.append(last)
        if len(amps) == 4 and r.random() < 0.4:
            amps[2] = amps[1]                     # a plateau
        tt = np.array([t * self.gr for t in times[:-1]] + [D], dtype=float)
        return pp.make_extended_trapezoid(ch, amplitudes=np.array(amps, dtype=float), times=tt, system=self.sys)

    def arb_conn(self, ch, first, last, D):
        """raster-sampled gradient over [0, D] whose edges are first/last (stored as given; the extrapolated
        edge of the waveform is within a fraction of a slew step of them)"""
        import pypulseq as pp
        r = self.rng
        gr = self.gr
        n = int(round(D / gr))
        t = (np.arange(n) + 0.5) / n
        base = first + (last - first) * t
        room = max(0.0, self.sys.max_grad - max(abs(first), abs(last)))
        bump = r.choice([-1, 1]) * r.uniform(0.1, 1.0) * min(0.9 * room, 0.3 * self.sys.max_slew * D / math.pi)
        w = base + bump * np.sin(math.pi * t) ** 2
        if r.random() < 0.5:
            step = 0.08 * self.sys.max_slew * gr
            walk = np.cumsum(np.array([r.uniform(-1, 1) for _ in range(n)])) * step
            walk -= np.linspace(walk[0], walk[-1], n)
            lim = 0.05 * self.sys.max_grad
            walk = np.clip(walk, -lim, lim) * np.sin(math.pi * t)
            w = np.clip(w + walk, -self.sys.max_grad, self.sys.max_grad)
        return pp.make_arbitrary_grad(ch, np.asarray(w, dtype=float), first=float(first), last=float(last), system=self.sys)

    def conn(self, ch, first, last, D):
        if self.rng.random() < 0.55:
            g = self.arb_conn(ch, first, last, D)
        else:
            g = self.ext_conn(ch, first, last, D)
        self.pool = (self.pool + [copy.deepcopy(g)])[-14:]
        return g

    def pick_last(self, f, D, final):
        """a chain value reachable from f within D (None if there is none)"""
        if final:
            return 0.0 if self.feasible(f, 0.0, D) else None
        cands = [v for v in self.palette + [0.0, 0.0, f] if self.feasible(f, v, D) and not (f == 0 and v == 0)]
        return self.rng.choice(cands) if cands else None

    # ---- blocks ----
    def block(self, final=False):
        carry = [ch for ch in 'xyz' if self.last[ch] != 0]
        if self.use['arb'] and (carry or ((not final) and self.rng.random() < 0.3)):
            evs = self.chain_block(final)
            if evs is not None:
                return evs
        return self.free_block()

    def free_block(self):
        r = self.rng
        evs = []
        taken = set()
        has_rf = self.use['rf'] and r.random() < 0.35
        if has_rf:
            rfev = self.rf()
            evs += rfev
            taken |= {e.channel for e in rfev if e.type in ('trap', 'grad')}
        for ch in 'xyz':
            if ch in taken or r.random() > (0.4 if has_rf else 0.75):
                continue
            kind = r.choice(['trap', 'ext', 'arb', 'ext', 'arb']) if self.use['arb'] else 'trap'
            g = self.trap(ch) if kind == 'trap' else self.ext0(ch) if kind == 'ext' else self.arb0(ch)
            evs.append(g if g is not None else self.trap(ch))
        if self.use['adc'] and not has_rf and r.random() < 0.45:
            evs.append(self.adc())
        if self.use['labels']:
            for _ in range(r.choice([0, 0, 1, 2, 3])):
                evs.append(self.label())
            for _ in range(r.choice([0, 0, 0, 1, 2])):
                evs.append(self.trig())
        evs.append(self.pad(evs))
        for ch in 'xyz':
            self.last[ch] = 0.0
        r.shuffle(evs)
        return evs

    def chain_block(self, final):
        """every channel that is away from zero continues; channels at zero may start.  Earlier connected events are
        RE-USED where the chain is at their first value (same data -> same library id): on one or several channels,
        adjacent or not, and followed later by new events."""
        r = self.rng
        chans = list('xyz')
        r.shuffle(chans)
        reuse, D = {}, None
        if self.pool and r.random() < 0.6:
            for ch in chans:
                f = self.last[ch]
                if f == 0 and r.random() < 0.4:
                    continue
                cands = [e for e in self.pool if float(e.first) == f and (D is None or abs(e.shape_dur - D) < 1e-12)
                         and (not final or float(e.last) == 0)]
                if cands and r.random() < 0.75:
                    e = copy.deepcopy(r.choice(cands))
                    D = float(e.shape_dur)
                    if self.twins and r.random() < 0.35:
                        sc = 1 + r.choice([2e-8, -3e-8, 5e-8])
                        e.waveform = np.asarray(e.waveform, dtype=float) * sc
                        e.first, e.last = float(e.first) * sc, float(e.last) * sc
                        if hasattr(e, 'area'):
                            e.area = e.area * sc
                        self.n_twins = getattr(self, 'n_twins', 0) + 1
                    reuse[ch] = e
        plan = {}
        for attempt in range(2):
            plan = {}
            ok = True
            for ch in chans:
                f = self.last[ch]
                if ch in reuse:
                    plan[ch] = (f, float(reuse[ch].last))
                    continue
                if f == 0 and (final or r.random() < 0.5):
                    continue
                if D is not None:
                    l = self.pick_last(f, D, final)
                    if l is None:
                        ok = False
                        break
                else:
                    l = 0.0 if final else r.choice(self.palette + [0.0, f])
                    if f == 0 and l == 0:
                        l = self.edge()
                plan[ch] = (f, l)
            if ok:
                break
            reuse, D = {}, None            # the re-used duration does not suit the other channels: build everything new
        if not plan:
            return None
        extra = []
        if self.use['rf'] and r.random() < 0.2:
            extra += [e for e in self.rf() if e.type == 'rf']
        elif self.use['adc'] and r.random() < 0.5:
            extra.append(self.adc())
        for ch in 'xyz':
            if ch not in plan and self.last[ch] == 0 and r.random() < 0.5:
                kind = r.choice(['trap', 'ext', 'arb'])
                g = self.trap(ch) if kind == 'trap' else self.ext0(ch) if kind == 'ext' else self.arb0(ch)
                if g is not None:
                    extra.append(g)
        if self.use['labels']:
            for _ in range(r.choice([0, 0, 1, 2])):
                extra.append(self.label())
            for _ in range(r.choice([0, 0, 0, 1, 2])):
                extra.append(self.trig())
        if D is None:
            longest = max([self._end(e) for e in extra] + [0.0])
            D = self.conn_duration(plan.values(), at_least=longest if longest <= 2.5e-3 else 0.0)
        evs = []
        for ch, (f, l) in plan.items():
            if ch in reuse:
                g = copy.deepcopy(reuse[ch])
                g.channel = ch
            else:
                g = self.conn(ch, f, l, D)
            evs.append(g)
        evs += [e for e in extra if self._end(e) <= D + 1e-12]
        for ch in 'xyz':
            self.last[ch] = plan[ch][1] if ch in plan else 0.0
        self.n_reused = getattr(self, 'n_reused', 0) + len(reuse)
        r.shuffle(evs)
        return evs


def replay_with_history(rng, events, system, use_block_cache=True):
    """the same blocks in the same PLAY order, stored through another history of public calls: add_block, set_block
    with an index beyond the end (ids skip ahead), set_block with a smaller unused index (play order != id order),
    and, in between, a write of the unfinished sequence (leaves a stale TotalDuration definition behind)"""
    import os
    import tempfile
    import pypulseq as pp
    seq = pp.Sequence(system, use_block_cache=use_block_cache)
    used = set()
    n_ooo = 0
    mid = rng.randint(1, len(events)) if rng.random() < 0.4 else None
    try:
        for k, evs in enumerate(events):
            nxt = seq.next_free_block_ID
            holes = [i for i in range(1, nxt) if i not in used]
            u = rng.random()
            if u < 0.45:
                seq.add_block(*evs)
                idx = nxt
            elif u < 0.75 or not holes:
                idx = nxt + rng.randint(0, 3)
                seq.set_block(idx, *evs)
            else:
                idx = rng.choice(holes)
                seq.set_block(idx, *evs)
                n_ooo += 1
            used.add(idx)
            if mid is not None and k + 1 == mid and k + 1 < len(events):
                with tempfile.TemporaryDirectory(prefix='pvmid') as d:
                    seq.write(os.path.join(d, 'mid.seq'), create_signature=rng.random() < 0.5, check_timing=False)
                seq._gen_midwrite = True
    except Exception:  # noqa: BLE001
        return None
    ids = [int(b) for b in seq.block_events]
    seq._gen_history = {'ids': ids, 'out_of_order': ids != sorted(ids), 'noncontiguous': ids != list(range(1, len(ids) + 1))}
    return seq


def random_sequence(rng, system=None, n_blocks=None, use_block_cache=True, history=False, **kw):
    """returns (seq, number of blocks stored, writer system)"""
    import pypulseq as pp
    system = system or rand_system(rng)
    seq = pp.Sequence(system, use_block_cache=use_block_cache)
    g = FGen(rng, system, **kw)
    n = n_blocks or rng.randint(1, 16)
    stored = 0
    tries = 0
    events = []
    while stored < n and tries < 4 * n:
        tries += 1
        final = stored == n - 1
        saved = dict(g.last)
        try:
            evs = g.block(final=final)
            seq.add_block(*evs)
            stored += 1
            events.append(evs)
        except Exception:   # a constructor or the continuity check refused: draw again
            g.last = saved
            continue
    if any(v != 0 for v in g.last.values()):
        try:
            pairs = {ch: (g.last[ch], 0.0) for ch in 'xyz' if g.last[ch] != 0}
            D = g.conn_duration(pairs.values())
            evs = [g.conn(ch, f, l, D) for ch, (f, l) in pairs.items()]
            seq.add_block(*evs)
            stored += 1
            events.append(evs)
        except Exception:
            pass
    if history and stored and rng.random() < 0.6:
        seq2 = replay_with_history(rng, events, system, use_block_cache)
        if seq2 is not None:
            seq = seq2
    random_definitions(rng, seq)
    seq._gen_reused = getattr(g, 'n_reused', 0)
    seq._gen_twins = getattr(g, 'n_twins', 0)
    seq._gen_value_twins = getattr(g, 'n_value_twins', 0)
    seq._gen_use_pairs = getattr(g, 'n_use_pairs', 0)
    return seq, stored, system


def shared_gradient_corpus():
    """fixed case: one extended trapezoid shared by two channels of block 1, continued by two DIFFERENT gradients in
    block 2 (the reader's first/last scan must carry the shared event's last value on both channels)"""
    import pypulseq as pp
    s = pp.Opts()
    seq = pp.Sequence(s)
    up = lambda ch: pp.make_extended_trapezoid(ch, amplitudes=np.array([0, 1e5]), times=np.array([0, 5e-4]), system=s)
    dn = lambda ch: pp.make_extended_trapezoid(ch, amplitudes=np.array([1e5, 0]), times=np.array([0, 5e-4]), system=s)
    dn2 = lambda ch: pp.make_extended_trapezoid(ch, amplitudes=np.array([1e5, 2e4, 0]), times=np.array([0, 3e-4, 5e-4]), system=s)
    seq.add_block(up('x'), up('y'))
    seq.add_block(dn('x'), dn2('y'))
    return seq, 2, s


# ---- user definitions ---------------------------------------------------------------------------------------------
# What the [DEFINITIONS] section can carry through write -> read -> write byte-identically (established on the
# unchanged tree, see C02.DEF_BASELINE): every Python int / float (any magnitude up to 1e308; ints and floats are both
# printed with 9 significant digits), lists / tuples / float arrays of them, and every string that (a) is not empty,
# (b) has no white space at either end, (c) has no line break, (d) has at least one blank-separated token that float()
# rejects.  Known-finding classes (one fixed reproducer each, never drawn at random): strings violating (a)-(d);
# NumPy integer / float32 values (printed with str() instead of 9 digits; repaired by /tmp/c01c02_fix2.patch).
def numeric_token(t):
    try:
        float(t)
        return True
    except ValueError:
        return False


def string_roundtrips(s):
    if s == '' or s != s.strip() or '\n' in s or '\r' in s:
        return False
    return not all(numeric_token(t) for t in s.split(' '))


WORDS = ['gre', 'epi', 'TE', '4.2', 'ms', '3T', 'scanner', 's\u00e9q', '\u00fc', '\u65e5\u672c', 'x=3', '#1', '[a]', '1abc',
         'v1.4.2', '\u03b1', '18', '1e5', 'nan', 'a,b', '%d', "it's", '"q"', '0x10', '-', '+']
SEPS = [' ', ' ', ' ', '  ', '   ', '\t', ' \t ', '\t\t', '      ']


def rand_string(rng):
    for _ in range(20):
        n = rng.randint(1, 5)
        s = rng.choice(WORDS)
        for _ in range(n - 1):
            s += rng.choice(SEPS) + rng.choice(WORDS)
        if string_roundtrips(s):
            return s
    return 'note'


def rand_int(rng):
    d = rng.randint(1, 12)
    v = rng.randint(10 ** (d - 1), 10 ** d - 1) if rng.random() < 0.8 else rng.choice([0, 10 ** (d - 1), 10 ** d - 1, 2 ** 31, 2 ** 32 - 1])
    return -v if rng.random() < 0.3 else v


def rand_float(rng):
    u = rng.random()
    if u < 0.2:
        return rng.choice([1.2345e-7, 6.02214076e23, 1e-300, 1e300, 2.5e-9, -4.9e-5])
    if u < 0.4:
        return float(rand_int(rng))                                 # exactly integral
    if u < 0.6:
        return rng.choice([1 / 3, 2 / 3, 0.1, 123456789.5, 1.23456789012, 0.30000000000000004, -7.000000001])
    return rng.uniform(-1, 1) * 10 ** rng.randint(-12, 12)


def rand_number(rng):
    return rand_int(rng) if rng.random() < 0.5 else rand_float(rng)


def rand_def_value(rng):
    u = rng.random()
    if u < 0.22:
        return rand_int(rng)
    if u < 0.4:
        return rand_float(rng)
    if u < 0.6:
        n = rng.randint(1, 5)
        vals = [rand_number(rng) for _ in range(n)]
        k = rng.random()
        if k < 0.4:
            return vals
        if k < 0.6:
            return tuple(vals)
        return np.array([float(v) for v in vals], dtype=float)
    if u < 0.65:
        w = ['gre', 'epi', 'TE', 'ms', 'scanner', '3T']            # text pieces (never numeric-looking)
        return [rng.choice(w), rand_int(rng)] if rng.random() < 0.5 else [rng.choice(w), rng.choice(w)]
    return rand_string(rng)


DEF_KEYS = ['FOV', 'Name', 'Seed', 'TimeStamp', 'Note', 'kappa', 'MaxAdcSegmentLength', 'SliceThickness', 'Protocol', 'a',
            'Z_last', 'b2', 'Operator', '_x', 'TE', 'TR']


def random_definitions(rng, seq):
    if rng.random() < 0.5:
        seq.set_definition('FOV', [rng.choice([0.25, 0.256, 0.2200001]), 0.25, rng.choice([0.003, 0.0030000004])])
    for key in rng.sample(DEF_KEYS[1:], rng.choice([0, 1, 2, 3, 5])):
        seq.set_definition(key, rand_def_value(rng))


def used_reader(rng, sysr, tmpdir):
    """a reading Sequence object with prior content: it has already read another file (written by another system,
    holding labels / triggers / gradients / RF) or has been built with add_block before it reads the file under test"""
    import os
    import pypulseq as pp
    s2 = pp.Sequence(sysr, use_block_cache=rng.random() < 0.6)
    if rng.random() < 0.6:
        primer, n, _ = random_sequence(rng, n_blocks=rng.randint(2, 10))
        if n:
            fn = os.path.join(tmpdir, 'primer.seq')
            primer.write(fn, create_signature=False, check_timing=False)
            s2.read(fn)
    else:
        g = FGen(rng, sysr)
        for _ in range(rng.randint(1, 8)):
            try:
                s2.add_block(*g.free_block())
            except Exception:  # noqa: BLE001
                pass
    # ... and it has been USED: blocks decoded (the block cache, when on, is warm), timing checked, waveforms exported
    try:
        u = rng.random()
        if u < 0.5:
            for b in list(s2.block_events):
                s2.get_block(b)
        elif u < 0.8:
            s2.check_timing()
        else:
            s2.waveforms_and_times()
    except Exception:  # noqa: BLE001
        pass
    return s2
