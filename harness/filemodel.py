"""filemodel.py — bridge between pypulseq Sequence objects / .seq files and Model/File.v (runner `file`).

  * tokenize(text): an independent, section-aware tokenizer of .seq text; every numeric token becomes the EXACT
    decimal it spells (fractions.Fraction(token)), never a float
  * dump_state(seq): the library state the section writers look at, as exact rationals of the stored doubles
  * encode_write / decode_write, encode_read / decode_read: token lines for `file.write` / `file.read`
  * compare_write / compare_read: the two correspondence stages of C01
"""
from fractions import Fraction

import numpy as np

from common import F, Toks, qtok, ztok, qlist, zlist

SECS = ['rf', 'grad', 'trap', 'adc', 'ext', 'trig', 'lset', 'linc']
_LABELS = None


def labels():
    global _LABELS
    if _LABELS is None:
        from pypulseq.supported_labels_rf_use import get_supported_labels
        _LABELS = list(get_supported_labels())
    return _LABELS


class TokenizeError(Exception):
    pass


def dec(tok):
    try:
        return Fraction(tok)
    except (ValueError, ZeroDivisionError):
        raise TokenizeError('not a decimal token: %r' % tok)


def tokenize(text):
    """-> dict(version, defs {key: [Fraction]|str}, def_order [keys], blocks, rf, grad, trap, adc, ext, trig, lset, linc,
    shape (rows of Fractions), ext_ids {name: id}, signature {Type, Hash}, raw_tokens {section: [[str]]})"""
    out = {'version': {}, 'defs': {}, 'def_order': [], 'blocks': [], 'shape': [], 'ext_ids': {}, 'signature': {},
           'raw': {}}
    for s in SECS:
        out[s] = []
    cur = None
    shape = None
    names = {'[RF]': 'rf', '[GRADIENTS]': 'grad', '[TRAP]': 'trap', '[ADC]': 'adc', '[EXTENSIONS]': 'ext', '[BLOCKS]': 'blocks'}
    ext_names = {'TRIGGERS': 'trig', 'LABELSET': 'lset', 'LABELINC': 'linc'}
    for raw in text.split('\n'):
        line = raw.strip()
        if line == '' or line.startswith('#'):
            continue
        if line.startswith('['):
            if shape is not None:
                out['shape'].append(shape)
                shape = None
            if line in names:
                cur = names[line]
            elif line in ('[VERSION]', '[DEFINITIONS]', '[SHAPES]', '[SIGNATURE]'):
                cur = line
            else:
                raise TokenizeError('unknown section %r' % line)
            continue
        if line.startswith('extension '):
            parts = line.split()
            if len(parts) != 3 or parts[1] not in ext_names:
                raise TokenizeError('bad extension header %r' % line)
            cur = ext_names[parts[1]]
            out['ext_ids'][parts[1]] = int(parts[2])
            continue
        toks = line.split()
        if cur == '[VERSION]':
            out['version'][toks[0]] = toks[1]
        elif cur == '[DEFINITIONS]':
            # the value part is split at single blanks (the format's separator); it is numeric iff EVERY piece is a
            # finite decimal, otherwise the rest of the line is free text
            key = line.split(' ')[0]
            pieces = line.split(' ')[1:]
            try:
                val = [dec(t) for t in pieces]
            except TokenizeError:
                val = line[len(key) + 1:].strip()
            toks = [key] + pieces
            out['defs'][key] = val
            out['def_order'].append(key)
            out['raw'].setdefault('defs', []).append(toks)
        elif cur == '[SIGNATURE]':
            out['signature'][toks[0]] = toks[1]
        elif cur == '[SHAPES]':
            if toks[0] == 'shape_id':
                if shape is not None:
                    out['shape'].append(shape)
                shape = [dec(toks[1])]
            elif toks[0] == 'num_samples':
                shape.append(dec(toks[1]))
            else:
                if len(toks) != 1:
                    raise TokenizeError('shape sample line with %d tokens' % len(toks))
                shape.append(dec(toks[0]))
            out['raw'].setdefault('shape', []).append(toks)
        elif cur in ('lset', 'linc'):
            if len(toks) != 3:
                raise TokenizeError('label row %r' % line)
            if toks[2] not in labels():
                raise TokenizeError('unknown label %r' % toks[2])
            out[cur].append([dec(toks[0]), dec(toks[1]), Fraction(labels().index(toks[2]) + 1)])
            out['raw'].setdefault(cur, []).append(toks)
        elif cur is None:
            raise TokenizeError('data before the first section: %r' % line)
        else:
            out[cur].append([dec(t) for t in toks])
            out['raw'].setdefault(cur, []).append(toks)
    if shape is not None:
        out['shape'].append(shape)
    return out


# ------------------------------------------------------------------------------------------------
def key_codes(k):
    return list(k.encode('utf-8'))


def num_defs(definitions):
    """numeric definitions in dict order: [(key, [Fraction])]; string-valued ones are not modelled"""
    out = []
    for k, v in definitions.items():
        if isinstance(v, str):
            continue
        if isinstance(v, (list, tuple, np.ndarray)):
            vals = list(v)
            if any(isinstance(x, str) for x in vals):
                continue
        else:
            vals = [v]
        if any(isinstance(x, (list, tuple, np.ndarray)) for x in vals):
            continue
        vals = [float(x) for x in vals]
        if any(x != x or x in (float('inf'), float('-inf')) for x in vals):
            continue                                   # nan / inf are printed as words: treated as text
        out.append((k, [F(x) for x in vals]))
    return out


def lib_rows(lib):
    return [[Fraction(int(k))] + [F(float(x)) for x in lib.data[k]] for k in lib.data]


def dump_state(seq):
    """the state the section writers of write_seq.py read (pass the DEDUPLICATED copy for the write stage)"""
    st = {}
    st['defs'] = num_defs(seq.definitions)
    st['blocks'] = [[Fraction(int(b)), F(float(seq.block_durations[b]))] + [Fraction(int(x)) for x in seq.block_events[b][1:]]
                    for b in seq.block_events]
    st['rf'] = lib_rows(seq.rf_library)
    st['grad'] = [(ord(seq.grad_library.type[k]), [Fraction(int(k))] + [F(float(x)) for x in seq.grad_library.data[k]])
                  for k in seq.grad_library.data]
    st['adc'] = lib_rows(seq.adc_library)
    st['ext'] = lib_rows(seq.extensions_library)
    st['trig'] = lib_rows(seq.trigger_library)
    st['lset'] = lib_rows(seq.label_set_library)
    st['linc'] = lib_rows(seq.label_inc_library)
    st['shape'] = lib_rows(seq.shape_library)
    st['braster'] = F(float(seq.block_duration_raster))
    st['rfraster'] = F(float(seq.rf_raster_time))
    st['gradraster'] = F(float(seq.grad_raster_time))
    st['adcraster'] = F(float(seq.adc_raster_time))
    return st


def enc_rows(rows):
    return ' '.join([str(len(rows))] + [qlist(r) for r in rows])


def enc_defs(defs):
    return ' '.join([str(len(defs))] + [zlist(key_codes(k)) + ' ' + qlist(v) for k, v in defs])


def encode_write(st):
    parts = ['file.write', enc_defs(st['defs']), enc_rows(st['blocks']), enc_rows(st['rf']),
             ' '.join([str(len(st['grad']))] + [ztok(t) + ' ' + qlist(r) for t, r in st['grad']]),
             enc_rows(st['adc']), enc_rows(st['ext']), enc_rows(st['trig']), enc_rows(st['lset']), enc_rows(st['linc']),
             enc_rows(st['shape']), qtok(st['braster']), qtok(st['rfraster']), qtok(st['gradraster']), qtok(st['adcraster'])]
    return ' '.join(parts)


def rd_rows(t):
    return t.list(lambda: t.list(t.q))


def rd_defs(t):
    def one():
        k = bytes(t.list(t.z)).decode('utf-8')
        return (k, t.list(t.q))
    return t.list(one)


def decode_write(line):
    t = Toks(line)
    out = {'defs': rd_defs(t), 'blocks': rd_rows(t)}
    for s in SECS:
        out[s] = rd_rows(t)
    out['shape'] = rd_rows(t)
    return out


def compare_write(model, tok):
    """model rows (decode_write) vs tokens of the real file (tokenize): exact.  Returns None or a dict."""
    mdefs = model['defs']
    fnum = [(k, tok['defs'][k]) for k in tok['def_order'] if not isinstance(tok['defs'][k], str)]
    if [k for k, _ in mdefs] != [k for k, _ in fnum]:
        return {'section': 'defs', 'what': 'key order', 'model': [k for k, _ in mdefs], 'file': [k for k, _ in fnum]}
    for (k, a), (_, b) in zip(mdefs, fnum):
        if a != b:
            return {'section': 'defs', 'key': k, 'model': [str(x) for x in a], 'file': [str(x) for x in b]}
    for s in ['blocks'] + SECS + ['shape']:
        a, b = model[s], tok[s]
        if len(a) != len(b):
            return {'section': s, 'what': 'row count', 'model': len(a), 'file': len(b)}
        for i, (ra, rb) in enumerate(zip(a, b)):
            if ra != rb:
                j = next((j for j in range(min(len(ra), len(rb))) if ra[j] != rb[j]), min(len(ra), len(rb)))
                return {'section': s, 'row': i, 'col': j, 'model': [str(x) for x in ra[:12]], 'file': [str(x) for x in rb[:12]],
                        'len_model': len(ra), 'len_file': len(rb)}
    return None


def encode_read(tok, sysr):
    fnum = [(k, tok['defs'][k]) for k in tok['def_order'] if not isinstance(tok['defs'][k], str)]
    parts = ['file.read'] + [qtok(F(float(v))) for v in (sysr.block_duration_raster, sysr.rf_raster_time, sysr.grad_raster_time,
                                                          sysr.adc_raster_time, sysr.adc_dead_time)]
    parts += [enc_defs(fnum), enc_rows(tok['blocks'])] + [enc_rows(tok[s]) for s in SECS] + [enc_rows(tok['shape'])]
    return ' '.join(parts)


def decode_read(line):
    t = Toks(line)
    out = {'defs': rd_defs(t), 'blocks': rd_rows(t), 'rf': rd_rows(t)}
    out['grad'] = t.list(lambda: (t.z(), t.list(t.q)))
    for s in ('adc', 'ext', 'trig', 'lset', 'linc', 'shape'):
        out[s] = rd_rows(t)
    for s in ('braster', 'rfraster', 'gradraster', 'adcraster'):
        out[s] = t.q()
    return out


def close(m, v, rel=Fraction(1, 10 ** 12)):
    return abs(m - v) <= rel * abs(m) + Fraction(1, 10 ** 30)


def compare_read(model, seq2):
    """model state (decode_read) vs the implementation's libraries after read(remove_duplicates=False)"""
    for nm, attr in (('braster', 'block_duration_raster'), ('rfraster', 'rf_raster_time'), ('gradraster', 'grad_raster_time'),
                     ('adcraster', 'adc_raster_time')):
        if not close(model[nm], F(float(getattr(seq2, attr)))):
            return {'section': 'rasters', 'which': attr, 'model': float(model[nm]), 'impl': float(getattr(seq2, attr))}
    # blocks
    mb = model['blocks']
    if [int(r[0]) for r in mb] != [int(b) for b in seq2.block_events]:
        return {'section': 'blocks', 'what': 'ids'}
    for r in mb:
        b = int(r[0])
        if not close(r[1], F(float(seq2.block_durations[b]))):
            return {'section': 'blocks', 'block': b, 'what': 'duration', 'model': float(r[1]), 'impl': float(seq2.block_durations[b])}
        if [int(x) for x in r[2:]] != [int(x) for x in seq2.block_events[b][1:]]:
            return {'section': 'blocks', 'block': b, 'what': 'events'}

    def cmp_lib(name, rows, lib, ncmp=None):
        if [int(r[0]) for r in rows] != [int(k) for k in lib.data]:
            return {'section': name, 'what': 'ids', 'model': [int(r[0]) for r in rows][:20], 'impl': [int(k) for k in lib.data][:20]}
        for r in rows:
            data = [float(x) for x in lib.data[int(r[0])]]
            mrow = r[1:]
            if ncmp is None and len(mrow) != len(data):
                return {'section': name, 'id': int(r[0]), 'what': 'row length', 'model': len(mrow), 'impl': len(data)}
            n = len(mrow) if ncmp is None else ncmp
            for j in range(n):
                if not close(mrow[j], F(data[j])):
                    return {'section': name, 'id': int(r[0]), 'col': j, 'model': float(mrow[j]), 'impl': data[j]}
        return None

    for name, lib in (('rf', seq2.rf_library), ('adc', seq2.adc_library), ('ext', seq2.extensions_library),
                      ('trig', seq2.trigger_library), ('lset', seq2.label_set_library), ('linc', seq2.label_inc_library),
                      ('shape', seq2.shape_library)):
        bad = cmp_lib(name, model[name], lib)
        if bad:
            return bad
    # gradients: tag + the stored columns (first/last are reconstructed afterwards, not part of the row readers)
    g = model['grad']
    if [int(r[0]) for _, r in g] != [int(k) for k in seq2.grad_library.data]:
        return {'section': 'grad', 'what': 'ids'}
    for tag, r in g:
        gid = int(r[0])
        if seq2.grad_library.type.get(gid) != chr(tag):
            return {'section': 'grad', 'id': gid, 'what': 'type', 'model': chr(tag), 'impl': seq2.grad_library.type.get(gid)}
        data = [float(x) for x in seq2.grad_library.data[gid]]
        mrow = r[1:]
        if len(data) < len(mrow) or (chr(tag) == 't' and len(data) != len(mrow)):
            return {'section': 'grad', 'id': gid, 'what': 'row length'}
        for j in range(len(mrow)):
            if not close(mrow[j], F(data[j])):
                return {'section': 'grad', 'id': gid, 'col': j, 'model': float(mrow[j]), 'impl': data[j]}
    return None


# ---- first/last reconstruction scan (Model/Scan.v) --------------------------------------------------------------
def scan_inputs(seq2):
    """what the scan of read_seq.py reads, taken from the re-read sequence: per gradient id (trap?, delay, duration,
    end value of the waveform) computed with the very float expressions of the scan, and per block (duration, ids)"""
    lib = {}
    blocks = []
    for b in seq2.block_events:
        ev = seq2.block_events[b]
        blk = seq2.get_block(b)
        ids = [int(ev[2]), int(ev[3]), int(ev[4])]
        blocks.append((F(float(seq2.block_durations[b])), ids))
        for j, ch in enumerate(('gx', 'gy', 'gz')):
            g = getattr(blk, ch)
            gid = ids[j]
            if g is None or gid in lib:
                continue
            if g.type == 'trap':
                lib[gid] = (True, F(float(g.delay)), Fraction(0), Fraction(0))
                continue
            time_id = seq2.grad_library.data[gid][2]
            if time_id != 0:
                last = g.waveform[-1]
                dur = g.delay + g.tt[-1]
            else:
                last = (3 * g.waveform[-1] - g.waveform[-2]) * 0.5
                dur = g.delay + len(g.waveform) * seq2.grad_raster_time
            lib[gid] = (False, F(float(g.delay)), F(float(dur)), F(float(last)))
    return lib, blocks


def encode_scan(lib, blocks):
    parts = ['file.scan', str(len(lib))]
    for gid, (trap, delay, dur, wl) in lib.items():
        parts += [ztok(gid), '1' if trap else '0', qtok(delay), qtok(dur), qtok(wl)]
    parts.append(str(len(blocks)))
    for dur, ids in blocks:
        parts += [qtok(dur), zlist(ids)]
    return ' '.join(parts)


def compare_scan(line, seq2, lib):
    """model (first, last) table vs columns 4, 5 of the implementation's gradient library after read()"""
    t = Toks(line)
    t.list(t.q)
    done = {}
    for _ in range(t.int()):
        gid = t.z()
        done[gid] = (t.q(), t.q())
    for gid, (trap, _, _, _) in lib.items():
        if trap:
            continue
        row = seq2.grad_library.data[gid]
        if len(row) < 6:
            return {'section': 'scan', 'id': gid, 'what': 'implementation left the row without first/last'}
        if gid not in done:
            return {'section': 'scan', 'id': gid, 'what': 'model did not reconstruct the event'}
        got = (F(float(row[4])), F(float(row[5])))
        if got != done[gid]:
            return {'section': 'scan', 'id': gid, 'model': [float(done[gid][0]), float(done[gid][1])], 'impl': [float(got[0]), float(got[1])]}
    return None


def tie_prone(st):
    """some time field of the state is (within 1e-6) half a unit of its integer column: the writer's binary64 product
    value*1e6 / value*1e9 / duration/raster and the model's exact product may round to different integers"""
    half, eps = Fraction(1, 2), Fraction(1, 10 ** 6)

    def tie(q):
        fr = q - (q.numerator // q.denominator)
        return abs(fr - half) < eps
    for r in st['blocks']:
        if st['braster'] and tie(r[1] / st['braster']):
            return True
    for name in ('adc', 'trig'):
        for r in st[name]:
            if any(tie(x * 10 ** 6) or tie(x * 10 ** 9) for x in r[1:]):
                return True
    for _, r in st['grad']:
        if any(tie(x * 10 ** 6) for x in r[2:]):
            return True
    return False
