"""seqgen.py — random TIMING-VALID sequences for the file-level properties (C01 C02 C03 C07 C08 C09 C10 C15 C19):
any mix of RF (block / sinc / arbitrary, with and without slice gradient), trapezoids, extended trapezoids and
raster gradients connected across blocks, ADC, delays, labels, triggers; random writer system."""
import math

import numpy as np

T0 = 20e-6   # every event time is a multiple of 20 us: valid for all raster families drawn below


def rand_system(rng, default_prob=0.3):
    import pypulseq as pp
    if rng.random() < default_prob:
        return pp.Opts()
    return pp.Opts(
        max_grad=rng.choice([28, 40, 80]), grad_unit='mT/m',
        max_slew=rng.choice([100, 150, 200]), slew_unit='T/m/s',
        grad_raster_time=rng.choice([10e-6, 20e-6, 5e-6, 4e-6]),
        rf_raster_time=rng.choice([1e-6, 2e-6, 5e-7]),
        adc_raster_time=1e-7,
        block_duration_raster=rng.choice([10e-6, 20e-6, 10e-6]),
        rf_dead_time=rng.choice([0, 100e-6, 20e-6]),
        rf_ringdown_time=rng.choice([0, 20e-6, 40e-6]),
        adc_dead_time=rng.choice([0, 10e-6, 20e-6]),
        gamma=rng.choice([42.576e6, 42.576e6, 10.7084e6]),
    )


def k(rng, lo, hi):
    """a multiple of T0"""
    return rng.randint(lo, hi) * T0


class Gen:
    def __init__(self, rng, system, labels=True, rf=True, adc=True, arb=True):
        self.rng = rng
        self.sys = system
        self.use = dict(labels=labels, rf=rf, adc=adc, arb=arb)
        self.last = {'x': 0.0, 'y': 0.0, 'z': 0.0}
        self.step = system.max_slew * system.grad_raster_time

    # ---- gradients ----
    def amp(self):
        return self.rng.choice([-1, 1]) * self.rng.choice([0.1, 0.25, 0.5, 0.7]) * self.sys.max_grad * self.rng.choice([1, 0.987654321])

    def ramp_time(self, a0, a1):
        need = abs(a1 - a0) / self.sys.max_slew
        n = max(1, math.ceil(need / T0 + 1e-9)) + self.rng.randint(0, 3)
        return n * T0

    def trap(self, ch):
        import pypulseq as pp
        r = self.rng
        a = self.amp()
        rt = self.ramp_time(0, a)
        return pp.make_trapezoid(ch, amplitude=a, rise_time=rt, flat_time=k(r, 0, 30), fall_time=self.ramp_time(0, a) if r.random() < 0.5 else rt,
                                 delay=k(r, 0, 5) if r.random() < 0.4 else 0, system=self.sys)

    def ext(self, ch, first, last, total=None):
        """extended trapezoid from first to last; corner times multiples of T0; total duration optional"""
        import pypulseq as pp
        r = self.rng
        mid = self.amp() if r.random() < 0.7 else first
        t1 = self.ramp_time(first, mid)
        hold = k(r, 0, 10)
        t2 = self.ramp_time(mid, last)
        times = [0.0, t1]
        amps = [first, mid]
        if hold > 0:
            times.append(t1 + hold)
            amps.append(mid)
        times.append(times[-1] + t2)
        amps.append(last)
        if total is not None and total > times[-1] + 1e-12:
            # hold the final amplitude until `total` (only meaningful when last is held) or stretch the hold
            times.append(total)
            amps.append(last)
        if not any(a != 0 for a in amps):
            amps[1] = self.amp()
        g = pp.make_extended_trapezoid(ch, amplitudes=np.array(amps, dtype=float), times=np.array(times, dtype=float), system=self.sys)
        return g

    def arb(self, ch, first, last, n=None):
        """raster-sampled gradient whose extrapolated edges are `first`/`last` within a slew step"""
        import pypulseq as pp
        r = self.rng
        gr = self.sys.grad_raster_time
        per = int(round(T0 / gr))
        n = n or r.randint(3, 20) * per
        peak = self.amp() if (first == 0 and last == 0) else 0.0
        t = (np.arange(n) + 0.5) / n
        base = first + (last - first) * t
        bump = peak * np.sin(math.pi * t) ** 2
        # keep slew in bounds: limit bump by available slew
        max_bump = 0.5 * self.sys.max_slew * n * gr / math.pi
        if abs(peak) > max_bump:
            bump *= max_bump / abs(peak)
        w = base + bump
        # slope limit of the linear part
        if abs(last - first) / (n * gr) > 0.9 * self.sys.max_slew:
            return None
        g = pp.make_arbitrary_grad(ch, w, first=first, last=last, system=self.sys)
        return g

    # ---- RF / ADC ----
    def rf(self):
        import pypulseq as pp
        r = self.rng
        kind = r.choice(['block', 'sinc', 'sinc_gz', 'gauss', 'arb'])
        kw = dict(system=self.sys, freq_offset=r.choice([0, 0, 123.456, -2000.5]), phase_offset=r.choice([0, 0, math.pi / 2, 0.123456789]),
                  delay=k(r, 0, 6) if r.random() < 0.3 else 0)
        use = r.choice([None, 'excitation', 'refocusing'])
        if use:
            kw['use'] = use
        flip = r.choice([math.pi / 2, math.pi, 0.2, 1.0471975511965976])
        dur = k(r, 5, 100)
        if kind == 'block':
            return [pp.make_block_pulse(flip, duration=dur, **kw)]
        if kind == 'sinc':
            return [pp.make_sinc_pulse(flip, duration=dur, time_bw_product=r.choice([2, 4]), apodization=r.choice([0, 0.5]), **kw)]
        if kind == 'gauss':
            return [pp.make_gauss_pulse(flip, duration=dur, time_bw_product=r.choice([2, 4]), **kw)]
        if kind == 'arb':
            n = int(round(dur / self.sys.rf_raster_time))
            sig = np.exp(-((np.arange(n) - n / 2) / (n / 5)) ** 2) * np.exp(1j * np.linspace(0, r.choice([0, 1.0, 3.0]), n))
            return [pp.make_arbitrary_rf(sig, flip, **kw)]
        rf, gz, gzr = pp.make_sinc_pulse(flip, duration=dur, time_bw_product=4, slice_thickness=r.choice([3e-3, 5e-3]),
                                         return_gz=True, **kw)
        return [rf, gz]

    def adc(self):
        import pypulseq as pp
        r = self.rng
        dwell = r.choice([1e-6, 2e-6, 5e-6, 1e-5, 2.5e-6])
        per = int(round(T0 / dwell)) if dwell <= T0 else 1
        n = r.randint(1, 12) * max(per, 4)
        while abs(n * dwell / T0 - round(n * dwell / T0)) > 1e-9:
            n += 4
        return pp.make_adc(n, dwell=dwell, delay=k(r, 0, 10), freq_offset=r.choice([0, 100.5]), phase_offset=r.choice([0, 0.5, math.pi]),
                           system=self.sys)

    def label(self):
        import pypulseq as pp
        from pypulseq.supported_labels_rf_use import get_supported_labels
        r = self.rng
        return pp.make_label(r.choice(get_supported_labels()), r.choice(['SET', 'INC']), r.choice([0, 1, 2, 5, -1, 17]))

    def trig(self):
        import pypulseq as pp
        r = self.rng
        if r.random() < 0.5:
            return pp.make_trigger(r.choice(['physio1', 'physio2']), delay=k(r, 0, 5), duration=k(r, 1, 10), system=self.sys)
        return pp.make_digital_output_pulse(r.choice(['osc0', 'osc1', 'ext1']), delay=k(r, 0, 5), duration=k(r, 1, 10), system=self.sys)

    # ---- one block ----
    def block(self, final=False):
        import pypulseq as pp
        r = self.rng
        evs = []
        grads = {}
        taken = set()
        has_rf = self.use['rf'] and r.random() < 0.35 and all(v == 0 for v in self.last.values())
        if has_rf:
            rfev = self.rf()
            evs += rfev
            for e in rfev:
                if e.type in ('trap', 'grad'):
                    taken.add(e.channel)
        # channels with a non-zero carry must continue; all non-zero-ending gradients share the block length
        carry = [ch for ch in 'xyz' if self.last[ch] != 0]
        connected = {}
        for ch in 'xyz':
            if ch in taken:
                continue
            if ch in carry or (not has_rf and r.random() < 0.45):
                first = self.last[ch]
                if first != 0 or (r.random() < 0.3 and not final and not has_rf):
                    lastv = 0.0 if (final or r.random() < 0.5) else self.amp()
                    connected[ch] = (first, lastv)
                else:
                    kind = r.choice(['trap', 'trap', 'ext', 'arb']) if self.use['arb'] else r.choice(['trap', 'ext'])
                    if kind == 'trap':
                        evs.append(self.trap(ch))
                    elif kind == 'ext':
                        evs.append(self.ext(ch, 0.0, 0.0))
                    else:
                        g = self.arb(ch, 0.0, 0.0)
                        evs.append(g if g is not None else self.trap(ch))
        if connected:
            # common duration for all gradients that start or end away from zero
            gs = {ch: self.ext(ch, f, l) for ch, (f, l) in connected.items()}
            total = max(g.tt[-1] for g in gs.values())
            other = max([self._end(e) for e in evs] + [0.0])
            total = max(total, math.ceil(other / T0 - 1e-9) * T0)
            for ch, (f, l) in connected.items():
                g = gs[ch]
                if g.tt[-1] < total - 1e-12:
                    if l != 0:
                        # re-make with a final hold up to `total`
                        g = self.ext(ch, f, l, total=total)
                        if g.tt[-1] < total - 1e-12 or g.tt[-1] > total + 1e-12:
                            total = max(total, g.tt[-1])
                evs.append(g)
                self.last[ch] = l if abs(g.tt[-1] - total) < 1e-12 else l
            # make sure every non-zero-ending gradient really ends at the block end
            blk_end = max(self._end(e) for e in evs)
            fixed = []
            for e in evs:
                if getattr(e, 'type', '') == 'grad' and e.last != 0 and abs(self._end(e) - blk_end) > 1e-12:
                    e = self.ext(e.channel, float(e.first), float(e.last), total=blk_end)
                fixed.append(e)
            evs = fixed
        for ch in 'xyz':
            if ch not in connected:
                self.last[ch] = 0.0
        if self.use['adc'] and not has_rf and r.random() < 0.4:
            evs.append(self.adc())
        if self.use['labels']:
            for _ in range(r.choice([0, 0, 1, 2, 3])):
                evs.append(self.label())
            for _ in range(r.choice([0, 0, 0, 1, 2])):
                evs.append(self.trig())
        if not evs or (not connected and r.random() < 0.3):
            evs.append(pp.make_delay(k(r, 1, 100)))
        # labels only: a block needs a duration; fine (duration 0 is allowed for pure label blocks)
        r.shuffle(evs)
        return evs

    def _end(self, e):
        t = getattr(e, 'type', None)
        if t == 'trap':
            return e.delay + e.rise_time + e.flat_time + e.fall_time
        if t == 'grad':
            return e.delay + e.shape_dur
        if t == 'rf':
            return e.delay + e.shape_dur + e.ringdown_time
        if t == 'adc':
            return e.delay + e.num_samples * e.dwell + e.dead_time
        if t == 'delay':
            return e.delay
        if t in ('output', 'trigger'):
            return e.delay + e.duration
        return 0.0


def random_sequence(rng, system=None, n_blocks=None, **kw):
    """returns (seq, list of event lists actually stored)"""
    import pypulseq as pp
    system = system or rand_system(rng)
    seq = pp.Sequence(system)
    g = Gen(rng, system, **kw)
    n = n_blocks or rng.randint(1, 12)
    stored = []
    tries = 0
    while len(stored) < n and tries < 4 * n:
        tries += 1
        final = len(stored) == n - 1
        saved = dict(g.last)
        try:
            evs = g.block(final=final)
            seq.add_block(*evs)
            stored.append(evs)
        except Exception:  # a constructor or the continuity check refused: draw again
            g.last = saved
            continue
    if any(v != 0 for v in g.last.values()):
        # ramp everything down in a closing block
        try:
            evs = [g.ext(ch, g.last[ch], 0.0) for ch in 'xyz' if g.last[ch] != 0]
            total = max(e.tt[-1] for e in evs)
            evs = [e if abs(e.tt[-1] - total) < 1e-12 else e for e in evs]
            seq.add_block(*evs)
            stored.append(evs)
        except Exception:
            pass
    return seq, stored
