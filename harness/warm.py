"""warm.py — after the Coq build: run the Print Assumptions pass of every property file once (in parallel) so that the
first ./check of each property does not pay for it.  Purely a cache; ./check recomputes it when stale."""
import concurrent.futures
import importlib
import os
import sys

HERE = os.path.dirname(os.path.abspath(__file__))
sys.path.insert(0, HERE)
import common  # noqa: E402


def one(tgt):
    v = os.path.join(common.COQ, tgt[:-1])
    vo = os.path.join(common.COQ, tgt)
    if not os.path.exists(vo):
        return tgt, 'no .vo'
    cache = vo[:-3] + '.assumptions'
    key = common._dep_key(v)
    if os.path.exists(cache) and open(cache).read().startswith(key + '\n'):
        return tgt, 'cached'
    rc, out = common._sh('timeout 1800 coqc -Q . PV -w none %s 2>&1' % tgt[:-1], cwd=common.COQ)
    if rc == 0:
        # coqc rewrote the .vo: key on the new object
        open(cache, 'w').write(common._dep_key(v) + '\n' + out)
        return tgt, 'ok'
    return tgt, 'coqc failed'


def main():
    tgts = sorted('Props/' + f + 'o' for f in os.listdir(os.path.join(common.COQ, 'Props')) if f.endswith('.v'))
    with concurrent.futures.ThreadPoolExecutor(max_workers=8) as ex:
        for tgt, res in ex.map(one, tgts):
            print('warm', tgt, res)


if __name__ == '__main__':
    main()
